package gen

import (
	"math/big"

	"verifharness/ref"
)

// Coef returns a coefficient in 0..Cmax drawn from the hostile shape classes
// of DESIGN §4. The second result names the shape class.
func (r *RNG) Coef() (*big.Int, string) {
	for {
		c, name := r.coef1()
		if c.Sign() >= 0 && c.Cmp(ref.Cmax) <= 0 {
			return c, name
		}
	}
}

// internal thresholds of multi-word decimal arithmetic: word boundaries, the
// usual "one more multiply by ten fits" guards, type bounds. Coefficients of
// the form floor(T/10^j)+delta make a scaled operand land next to them.
var thresholds = func() []*big.Int {
	var ts []*big.Int
	for _, k := range []uint{31, 32, 53, 63, 64, 96, 113, 127, 128, 160, 192, 224, 256} {
		ts = append(ts, new(big.Int).Lsh(ref.One, k))
	}
	hex := []string{
		"19000000000000000000000000000000", // 0x18ff..ff+1 << 64: guard of the x10 scale-up loops
		"1999999999999999999999999999999a", // ceil(2^128/10)
		"19999999999999990000000000000000", // MaxUint64/10 in the high word
		"00028000000000000000000000000000", // Cmax+1
		"00027fffffffffff0000000000000000", // high word of Cmax with an empty low word
		"0002800000000000", "00068db8bac710cb", "09c4000000000000", "00fa000000000000", "0019000000000000",
		"ffffffffffffffff", "7fffffffffffffff", "ffffffff", "7fffffff",
		"0000ffffffffffffffffffffffffffffffffffffffffffffffff", // 192-bit guard area
	}
	for _, h := range hex {
		t, _ := new(big.Int).SetString(h, 16)
		ts = append(ts, t)
	}
	// a top word equal to a fast-path divisor of the division helpers: D * 2^64, D * 2^128
	for _, d := range []uint64{10, 100, 1000, 10000, 100000000, 10000000000000000000} {
		for _, sh := range []uint{64, 128} {
			ts = append(ts, new(big.Int).Lsh(new(big.Int).SetUint64(d), sh))
		}
	}
	return ts
}()

// ThresholdInt64 returns (sig, k) with sig = floor(T/10^k)+delta fitting an
// int64 and 15..19 digits long: sig*10^k lands next to the internal threshold T.
func (r *RNG) ThresholdInt64() (int64, int) {
	for try := 0; try < 40; try++ {
		t := thresholds[r.Intn(len(thresholds))]
		k := ref.NumDigits(t) - 19 + r.Intn(5)
		if k < 0 {
			k = 0
		}
		c := new(big.Int).Quo(t, ref.Pow10(k))
		c.Add(c, big.NewInt(int64(r.Pick(0, 0, -1, 1, -2, 2, r.Range(-50, 50)))))
		if c.IsInt64() && c.Sign() > 0 {
			return c.Int64(), k
		}
	}
	return 1, 0
}

// fastPathDivisors are the constants the multi-word division helpers compare a
// top word against (n[top] < D selects a one-step division).
var fastPathDivisors = []uint64{10, 100, 1000, 10000, 100000000, 10000000000000000000}

// ProductTargetPair returns coefficients a, b (both valid, b possibly short)
// whose exact product lands next to an intermediate threshold of the wide
// multiplication pipeline: a top word equal to a fast-path divisor
// (D*2^(64j) .. (D+1)*2^(64j)), a word boundary 2^(64j), or those times the
// powers of ten the pipeline divides out first. The product of the encoded
// coefficients - a joint condition on both operands - is what is steered.
func (r *RNG) ProductTargetPair() (*big.Int, *big.Int, bool) {
	for try := 0; try < 30; try++ {
		j := uint(64 * r.Range(1, 3))
		var t *big.Int
		if r.Chance(3, 4) {
			d := new(big.Int).SetUint64(fastPathDivisors[r.Intn(len(fastPathDivisors))])
			d.Add(d, big.NewInt(int64(r.Pick(0, 0, 0, -1, 1))))
			t = new(big.Int).Lsh(d, j)
		} else {
			t = new(big.Int).Lsh(ref.One, j+uint(r.Pick(0, 0, 63, 1)))
		}
		// somewhere inside the window above the threshold (or just below it)
		off := r.BigBelow(new(big.Int).Lsh(ref.One, j))
		if r.Chance(1, 8) {
			off.Neg(new(big.Int).SetUint64(r.U64() >> uint(r.Intn(64))))
		}
		t.Add(t, off)
		t.Mul(t, ref.Pow10(r.Pick(0, 0, 19, 38, 4, 8, 12, 23, 27)))
		if t.Sign() <= 0 {
			continue
		}
		a, _ := r.Coef()
		if a.Sign() == 0 || r.Bool() {
			a = r.BigBelow(new(big.Int).Lsh(ref.One, uint(r.Range(1, 113))))
			a.Add(a, ref.One)
		}
		if a.Cmp(ref.Cmax) > 0 {
			continue
		}
		b := new(big.Int).Quo(t, a)
		if b.Sign() <= 0 || b.Cmp(ref.Cmax) > 0 {
			continue
		}
		return a, b, true
	}
	return nil, nil, false
}

// WordImage returns a coefficient built from one part of c's multi-word or
// multi-chunk representation (low/high 64-bit word, low/high 10^19 chunk, c
// with its top bit cleared, the bitwise complement within c's width): an
// operand "derived from part of the other operand".
func (r *RNG) WordImage(c *big.Int) *big.Int {
	two64 := new(big.Int).Lsh(ref.One, 64)
	var img *big.Int
	switch r.Intn(6) {
	case 0:
		img = new(big.Int).Mod(c, two64)
	case 1:
		img = new(big.Int).Rsh(c, 64)
	case 2:
		img = new(big.Int).Mod(c, ref.Pow10(19))
	case 3:
		img = new(big.Int).Quo(c, ref.Pow10(19))
	case 4:
		img = new(big.Int).Set(c)
		if bl := c.BitLen(); bl > 1 {
			img.SetBit(img, bl-1, 0)
		}
	default:
		bl := c.BitLen()
		m := new(big.Int).Sub(new(big.Int).Lsh(ref.One, uint(bl)), ref.One)
		img = new(big.Int).Xor(c, m)
	}
	if img.Sign() == 0 {
		img.SetInt64(1)
	}
	return img
}

// WordImageOperand returns an operand whose coefficient is WordImage(c)*10^g
// at exponent e-g (g chosen so that it fits), with the given sign.
func (r *RNG) WordImageOperand(neg bool, c *big.Int, e int) ref.Bits {
	img := r.WordImage(c)
	g := r.Range(0, 34)
	for g > 0 && (new(big.Int).Mul(img, ref.Pow10(g)).Cmp(ref.Cmax) > 0 || e-g < ref.MinExp) {
		g--
	}
	return ref.Encode(neg, new(big.Int).Mul(img, ref.Pow10(g)), ClampExp(e-g))
}

// ThresholdExact returns an internal threshold itself (those that are valid
// coefficients), or its neighbour.
func (r *RNG) ThresholdExact() *big.Int {
	for try := 0; try < 60; try++ {
		t := new(big.Int).Set(thresholds[r.Intn(len(thresholds))])
		t.Add(t, big.NewInt(int64(r.Pick(0, 0, 0, 1, -1))))
		if t.Sign() > 0 && t.Cmp(ref.Cmax) <= 0 {
			return t
		}
	}
	return big.NewInt(1)
}

// ThresholdFull returns a full-width coefficient (10^33 .. Cmax) next to an
// internal threshold scaled by a power of ten: T*10^j or floor(T/10^j), plus a
// small or sub-word offset.
func (r *RNG) ThresholdFull() *big.Int {
	lo := ref.Pow10(33)
	for try := 0; try < 60; try++ {
		t := new(big.Int).Set(thresholds[r.Intn(len(thresholds))])
		for t.Cmp(lo) < 0 {
			t.Mul(t, ref.Ten)
		}
		for t.Cmp(ref.Cmax) > 0 {
			t.Quo(t, ref.Ten)
		}
		// a 34-digit value may also have a 35-digit scaling that fits
		if t10 := new(big.Int).Mul(t, ref.Ten); t10.Cmp(ref.Cmax) <= 0 && r.Bool() {
			t = t10
		}
		switch r.Intn(4) {
		case 0:
		case 1:
			t.Add(t, big.NewInt(int64(r.Range(-3, 3))))
		case 2:
			t.Add(t, new(big.Int).SetUint64(r.U64()>>uint(r.Intn(64))))
		default:
			t.Sub(t, new(big.Int).SetUint64(r.U64()>>uint(r.Intn(64))))
		}
		if t.Cmp(lo) >= 0 && t.Cmp(ref.Cmax) <= 0 {
			return t
		}
	}
	return new(big.Int).Set(lo)
}

// ThresholdCoef returns floor(T/10^j)+delta for an internal threshold T.
func (r *RNG) ThresholdCoef() *big.Int {
	for try := 0; try < 40; try++ {
		t := thresholds[r.Intn(len(thresholds))]
		j := r.Intn(42)
		c := new(big.Int).Quo(t, ref.Pow10(j))
		switch r.Intn(4) {
		case 0:
			c.Add(c, big.NewInt(int64(r.Range(-2, 2))))
		case 1:
			c.Add(c, ref.One)
		case 2:
			c.Add(c, r.BigBelow(ref.Pow10(r.Range(1, 19))))
		}
		if c.Sign() > 0 && c.Cmp(ref.Cmax) <= 0 {
			// optionally strip or add trailing zeros (cohort of the same coefficient shape)
			if r.Chance(1, 4) {
				q, m := new(big.Int), new(big.Int)
				for {
					q.QuoRem(c, ref.Ten, m)
					if m.Sign() != 0 || q.Sign() == 0 {
						break
					}
					c.Set(q)
				}
			}
			return c
		}
	}
	return big.NewInt(1)
}

func (r *RNG) coef1() (*big.Int, string) {
	if r.Chance(1, 12) {
		switch r.Intn(4) {
		case 0:
			return r.ThresholdFull(), "threshold-full-width"
		case 1:
			return r.ThresholdExact(), "threshold-exact"
		}
		return r.ThresholdCoef(), "threshold/10^j"
	}
	switch r.Intn(16) {
	case 0:
		return big.NewInt(int64(r.Intn(20))), "small"
	case 1:
		k := r.Intn(35)
		return new(big.Int).Set(ref.Pow10(k)), "pow10"
	case 2:
		k := r.Intn(35)
		c := new(big.Int).Set(ref.Pow10(k))
		return c.Add(c, big.NewInt(int64(r.Range(-3, 3)))), "pow10±"
	case 3:
		k := r.Intn(34)
		c := new(big.Int).Mul(ref.Pow10(k), big.NewInt(int64(r.Range(1, 9))))
		return c, "d·pow10"
	case 4:
		k := r.Intn(34)
		c := new(big.Int).Mul(ref.Pow10(k), big.NewInt(5))
		return c.Add(c, big.NewInt(int64(r.Range(-1, 1)))), "5·pow10±"
	case 5:
		c := new(big.Int).Sub(ref.Cmax, big.NewInt(int64(r.Intn(12))))
		return c, "Cmax-"
	case 6:
		c := new(big.Int).Add(ref.CmaxP1d10, big.NewInt(int64(r.Range(-2, 2))))
		return c, "seam"
	case 7:
		k := r.Range(1, 113)
		c := new(big.Int).Lsh(ref.One, uint(k))
		return c.Add(c, big.NewInt(int64(r.Range(-1, 1)))), "pow2±"
	case 8:
		return new(big.Int).SetUint64(r.U64()), "u64"
	case 9:
		return new(big.Int).SetUint64(r.U64() >> uint(r.Intn(64))), "u64s"
	case 12:
		// binary image special: a multiple of 2^64 (low word zero), optionally times 10^j or plus a few decimal
		// digits, so that some intermediate quotient by a power of ten is again a multiple of 2^64
		m := new(big.Int).SetUint64(r.U64() >> uint(r.Range(15, 63)))
		if m.Sign() == 0 {
			m.SetInt64(1)
		}
		c := new(big.Int).Lsh(m, 64)
		for j := r.Intn(16); j > 0; j-- {
			t := new(big.Int).Mul(c, ref.Ten)
			if r.Chance(1, 4) {
				t.Add(t, big.NewInt(int64(r.Intn(10))))
			}
			if t.Cmp(ref.Cmax) > 0 {
				break
			}
			c = t
		}
		if c.Cmp(ref.Cmax) > 0 {
			c.Rsh(c, 20)
		}
		return c, "k·2^64·10^j"
	case 10, 11:
		n := r.Range(1, 35)
		return r.Digits(n), "ndigit"
	case 13:
		// n-digit with trailing zeros
		n := r.Range(1, 35)
		z := r.Intn(n)
		c := r.Digits(n - z)
		return c.Mul(c, ref.Pow10(z)), "tz"
	case 14:
		// 34 or 35 digits, all 9s with a twist
		n := r.Range(33, 35)
		c := new(big.Int).Sub(ref.Pow10(n), big.NewInt(int64(r.Range(1, 3))))
		return c, "nines"
	default:
		return r.BigBelow(ref.CmaxP1), "uniform"
	}
}

// Exp returns an unbiased exponent from the hostile exponent classes.
func (r *RNG) Exp() int {
	switch r.Intn(8) {
	case 0:
		return ref.MinExp + r.Intn(80)
	case 1:
		return ref.MaxExp - r.Intn(80)
	case 2, 3:
		return r.Range(-40, 40)
	case 4:
		return r.Range(-400, 400)
	default:
		return r.Range(ref.MinExp, ref.MaxExp)
	}
}

// ClampExp clamps e into the encodable range.
func ClampExp(e int) int {
	if e < ref.MinExp {
		return ref.MinExp
	}
	if e > ref.MaxExp {
		return ref.MaxExp
	}
	return e
}

// Finite returns a random finite operand.
func (r *RNG) Finite() ref.Bits {
	c, _ := r.Coef()
	if r.Chance(1, 8) {
		// exponent aligned with the coefficient length: the decimal point sits right before, right after or
		// inside the digits (magnitudes around one, where integer/fraction splits and digit-count tables matter)
		nd := ref.NumDigits(c)
		e := -r.Pick(nd, nd-1, nd+1, nd-2, r.Range(0, nd+2))
		if e > 0 {
			e = 0
		}
		return ref.Encode(r.Bool(), c, e)
	}
	return ref.Encode(r.Bool(), c, r.Exp())
}

// FiniteNear returns a finite operand whose exponent is e0+gap clamped.
func (r *RNG) FiniteNear(e0, gap int) ref.Bits {
	c, _ := r.Coef()
	return ref.Encode(r.Bool(), c, ClampExp(e0+gap))
}

// Gap returns an exponent gap from the classes where the code switches
// strategy.
func (r *RNG) Gap() int {
	switch r.Intn(10) {
	case 0, 1, 2, 3:
		return r.Range(-41, 41)
	case 4, 5:
		return r.Range(-80, 80)
	case 6:
		g := r.Pick(19, 27, 35, 38, 57, 34, 36, 37, 39, 40, 70, 71, 72)
		if r.Bool() {
			g = -g
		}
		return g + r.Range(-1, 1)
	case 7:
		return r.Pick(100, -100, 1000, -1000, 6000, -6000, 12287, -12287, 12286, -12286)
	default:
		return r.Range(-12287, 12287)
	}
}

// AnyBits returns an arbitrary 128-bit pattern with specials over-represented.
func (r *RNG) AnyBits() ref.Bits {
	switch r.Intn(12) {
	case 0: // NaN with random payload and sign
		return ref.Bits{Hi: 0x7c00_0000_0000_0000 | (r.U64() & 0x83ff_ffff_ffff_ffff), Lo: r.U64()}
	case 1: // canonical-ish NaN with small payload
		return ref.Bits{Hi: 0x7c00_0000_0000_0000 | (r.U64() & 0x8000_0000_0000_0000), Lo: r.U64() & 0xffffff}
	case 2: // Inf with garbage
		return ref.Bits{Hi: 0x7800_0000_0000_0000 | (r.U64() & 0x83ff_ffff_ffff_ffff), Lo: r.U64()}
	case 3: // canonical Inf
		return ref.EncodeInf(r.Bool())
	case 4: // zero with any exponent, small form
		return ref.Encode(r.Bool(), new(big.Int), r.Exp())
	case 5: // uniform bits
		return ref.Bits{Hi: r.U64(), Lo: r.U64()}
	case 7: // NaN / sNaN / Inf with a structured tail: all zero (the canonical forms other implementations emit), low
		// word zero, high tail zero, a single bit, all ones, small operation-code-like payloads
		prefix := []uint64{0x7c00_0000_0000_0000, 0x7e00_0000_0000_0000, 0x7800_0000_0000_0000}[r.Intn(3)]
		b := ref.Bits{Hi: prefix | (r.U64() & 0x8000_0000_0000_0000)}
		switch r.Intn(7) {
		case 0: // all zero
		case 1: // low word zero, garbage above
			b.Hi |= r.U64() & 0x01ff_ffff_ffff_ffff
		case 2: // high tail zero, garbage below
			b.Lo = r.U64()
		case 3: // one bit
			if k := r.Intn(121); k < 64 {
				b.Lo = 1 << uint(k)
			} else {
				b.Hi |= 1 << uint(k-64)
			}
		case 4: // all ones
			b.Hi |= 0x01ff_ffff_ffff_ffff
			b.Lo = ^uint64(0)
		case 5: // payload shaped like the library's own: operation byte and two operand-class bytes, in and out of range
			b.Lo = uint64(r.Intn(40)) | uint64(r.Pick(0, 1, 2, 5, 6, 7, 8, 9, 255, r.Intn(256)))<<8 | uint64(r.Pick(0, 1, 6, 7, 8, 255, r.Intn(256)))<<16
		default:
			b.Lo = uint64(r.Intn(256))
		}
		return b
	case 6: // uniform bits, steering form forced
		b := ref.Bits{Hi: r.U64() | 0x6000_0000_0000_0000, Lo: r.U64()}
		if b.Hi&0x7800_0000_0000_0000 == 0x7800_0000_0000_0000 {
			b.Hi &^= 0x0800_0000_0000_0000
		}
		return b
	default:
		return r.Finite()
	}
}

// CohortMember returns another encoding of the finite value n (same value and
// sign), chosen at random among its cohort; ok=false if n has a single member.
func (r *RNG) CohortMember(n ref.Num) (ref.Bits, bool) {
	if n.Class != ref.Finite {
		return n.Bits, false
	}
	if n.Coef.Sign() == 0 {
		return ref.Encode(n.Neg, n.Coef, r.Exp()), true
	}
	// strip trailing zeros to the minimal coefficient
	c := new(big.Int).Set(n.Coef)
	e := n.Exp
	q, m := new(big.Int), new(big.Int)
	for e < ref.MaxExp {
		q.QuoRem(c, ref.Ten, m)
		if m.Sign() != 0 {
			break
		}
		c.Set(q)
		e++
	}
	// count how far it can be scaled up
	var members []struct {
		c *big.Int
		e int
	}
	cc := new(big.Int).Set(c)
	ee := e
	for ee >= ref.MinExp && cc.Cmp(ref.Cmax) <= 0 {
		members = append(members, struct {
			c *big.Int
			e int
		}{new(big.Int).Set(cc), ee})
		cc.Mul(cc, ref.Ten)
		ee--
	}
	if len(members) <= 1 {
		return n.Bits, false
	}
	var pick int
	switch r.Intn(4) {
	case 0:
		pick = 0
	case 1:
		pick = len(members) - 1
	default:
		pick = r.Intn(len(members))
	}
	m2 := members[pick]
	return ref.Encode(n.Neg, m2.c, m2.e), true
}
