// Package gen holds the deterministic hostile workload generators. Every
// choice derives from a splitmix64 stream seeded by (VERIF_SEED, property,
// phase, shard); nothing depends on time.
package gen

import (
	"math/big"
)

type RNG struct{ s uint64 }

func mix(z uint64) uint64 {
	z += 0x9e3779b97f4a7c15
	z = (z ^ (z >> 30)) * 0xbf58476d1ce4e5b9
	z = (z ^ (z >> 27)) * 0x94d049bb133111eb
	return z ^ (z >> 31)
}

// NewRNG derives a stream from a seed and any number of integer labels.
func NewRNG(seed uint64, labels ...uint64) *RNG {
	s := mix(seed)
	for _, l := range labels {
		s = mix(s ^ mix(l+0x1234567))
	}
	return &RNG{s}
}

func HashString(s string) uint64 {
	h := uint64(14695981039346656037)
	for i := 0; i < len(s); i++ {
		h ^= uint64(s[i])
		h *= 1099511628211
	}
	return h
}

func (r *RNG) U64() uint64 {
	r.s += 0x9e3779b97f4a7c15
	z := r.s
	z = (z ^ (z >> 30)) * 0xbf58476d1ce4e5b9
	z = (z ^ (z >> 27)) * 0x94d049bb133111eb
	return z ^ (z >> 31)
}

// Intn returns a uniform int in [0, n).
func (r *RNG) Intn(n int) int {
	if n <= 0 {
		panic("Intn")
	}
	return int(r.U64() % uint64(n))
}

// Range returns a uniform int in [lo, hi].
func (r *RNG) Range(lo, hi int) int { return lo + r.Intn(hi-lo+1) }

func (r *RNG) Bool() bool { return r.U64()&1 == 1 }

// Chance returns true with probability num/den.
func (r *RNG) Chance(num, den int) bool { return r.Intn(den) < num }

// Pick returns one of the ints.
func (r *RNG) Pick(xs ...int) int { return xs[r.Intn(len(xs))] }

// BigBelow returns a uniform big.Int in [0, n).
func (r *RNG) BigBelow(n *big.Int) *big.Int {
	if n.Sign() <= 0 {
		panic("BigBelow")
	}
	words := (n.BitLen() + 63) / 64
	buf := make([]big.Word, 0, words+1)
	for i := 0; i < words+1; i++ {
		buf = append(buf, big.Word(r.U64()))
	}
	z := new(big.Int).SetBits(buf)
	return z.Mod(z, n)
}

// Digits returns a random decimal integer with exactly n digits (n >= 1),
// with runs of 0s and 9s planted now and then.
func (r *RNG) Digits(n int) *big.Int {
	b := make([]byte, n)
	mode := r.Intn(6)
	for i := range b {
		switch {
		case mode == 0 && r.Chance(3, 4):
			b[i] = '0'
		case mode == 1 && r.Chance(3, 4):
			b[i] = '9'
		default:
			b[i] = byte('0' + r.Intn(10))
		}
	}
	if mode == 2 && n > 2 { // a run of identical digits somewhere
		c := byte('0')
		if r.Bool() {
			c = '9'
		}
		a := r.Intn(n)
		l := r.Intn(n-a) + 1
		for i := a; i < a+l; i++ {
			b[i] = c
		}
	}
	if b[0] == '0' {
		b[0] = byte('1' + r.Intn(9))
	}
	z, _ := new(big.Int).SetString(string(b), 10)
	return z
}
