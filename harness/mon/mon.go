// Package mon holds the monitor-side bookkeeping: recorded cases, verdict
// collection per shard, merging, and the result document the child process
// hands to the runner.
package mon

import (
	"encoding/json"
	"fmt"
	"math"
	"os"
	"sort"
	"sync"
	"sync/atomic"
)

// Case is one observed call, recorded so that it can be replayed exactly.
type Case struct {
	Prop  string   `json:"prop"`
	Op    string   `json:"op"`
	X     []string `json:"x,omitempty"` // Decimal operands, 32 hex digits each (hi||lo)
	S     []string `json:"s,omitempty"` // string arguments
	N     []int64  `json:"n,omitempty"` // integer arguments
	B     [][]byte `json:"b,omitempty"` // byte-slice arguments
	F     []uint64 `json:"f,omitempty"` // float bit patterns
	Mode  int      `json:"mode"`        // RoundingMode argument (or -1)
	Def   int      `json:"def"`         // DefaultRoundingMode during the call
	Phase string   `json:"phase,omitempty"`
	Shard int      `json:"shard"`
	Index int64    `json:"index"`
	Seed  uint64   `json:"seed"`
}

// Violation is a refuted call.
type Violation struct {
	Case   Case    `json:"case"`
	Kind   string  `json:"kind"` // discrepancy kind: value, sign, class, panic, error, text, ...
	Want   string  `json:"want"`
	Got    string  `json:"got"`
	Detail string  `json:"detail,omitempty"`
	Metric float64 `json:"metric,omitempty"` // property-specific magnitude of the discrepancy (e.g. error in ulps)
	Known  string  `json:"known,omitempty"`  // id of the open known finding that matches, if any
}

const maxViolationsPerShard = 400
const maxSamplesPerShard = 2

// Shard collects what one worker goroutine observed. Not shared.
type Shard struct {
	ID         int
	Phase      string
	Evals      int64
	nontrivial []uint64
	Cells      map[string]int64
	Viol       []Violation
	ViolTotal  int64            // all violations, known or not
	FreshTotal int64            // violations no open known finding matches
	KnownCount map[string]int64 // matched violations per finding id
	knownKept  map[string]int
	Samples    []Case
	Max        map[string]float64
	MaxCase    map[string]Case
	Incon      map[string]int64
	index      int64

	// Progress counts evaluations for the stall monitor (read from another goroutine).
	Progress atomic.Int64
	Done     atomic.Bool
}

func NewShard(id int, phase string) *Shard {
	return &Shard{ID: id, Phase: phase, Cells: map[string]int64{}, Max: map[string]float64{}, MaxCase: map[string]Case{}, Incon: map[string]int64{},
		KnownCount: map[string]int64{}, knownKept: map[string]int{}}
}

// Next returns the running case index of this shard.
func (s *Shard) Next() int64 { s.index++; return s.index }

// Eval records one judged execution. hash identifies the case (operation and
// arguments) for distinct counting; nontrivial follows the property's rule.
func (s *Shard) Eval(hash uint64, nontrivial bool) {
	s.Evals++
	s.Progress.Add(1)
	if nontrivial {
		s.nontrivial = append(s.nontrivial, hash)
	}
}

func (s *Shard) Cell(name string) { s.Cells[name]++ }

func (s *Shard) CellN(name string, n int64) { s.Cells[name] += n }

// Inconclusive records a judgement that could not be decided (guard band...).
func (s *Shard) Inconclusive(reason string) { s.Incon[reason]++ }

// finite maps the non-finite floats (an error measured against an infinite or
// NaN result) to values encoding/json can write.
func finite(v float64) float64 {
	switch {
	case math.IsNaN(v):
		return -1
	case math.IsInf(v, 1):
		return math.MaxFloat64
	case math.IsInf(v, -1):
		return -math.MaxFloat64
	}
	return v
}

// TrackMax keeps the largest value seen under a key together with its case.
func (s *Shard) TrackMax(key string, v float64, c *Case) {
	v = finite(v)
	if old, ok := s.Max[key]; !ok || v > old {
		s.Max[key] = v
		if c != nil {
			s.MaxCase[key] = *c
		}
	}
}

func (s *Shard) Sample(c *Case) {
	if len(s.Samples) < maxSamplesPerShard {
		s.Samples = append(s.Samples, *c)
	}
}

// Classifier, when set, names the open known finding a violation falls under
// ("" if none). It is installed by the property framework and evaluated at
// the moment a violation is recorded, so that classification never depends on
// how many violations are kept.
var Classifier func(v *Violation) string

// ViolateM records a violation together with a numeric discrepancy measure.
func (s *Shard) ViolateM(c *Case, kind, want, got, detail string, metric float64) {
	v := Violation{Case: *c, Kind: kind, Want: want, Got: got, Detail: detail, Metric: finite(metric)}
	s.ViolTotal++
	if Classifier != nil {
		v.Known = Classifier(&v)
	}
	if v.Known != "" {
		s.KnownCount[v.Known]++
		if s.knownKept[v.Known] < 3 {
			s.knownKept[v.Known]++
			s.Viol = append(s.Viol, v)
		}
		return
	}
	s.FreshTotal++
	if s.FreshTotal <= maxViolationsPerShard {
		s.Viol = append(s.Viol, v)
	}
}

func (s *Shard) Violate(c *Case, kind, want, got, detail string) {
	s.ViolateM(c, kind, want, got, detail, 0)
}

// Result is the document a child process writes for the runner.
type Result struct {
	Prop            string             `json:"prop"`
	Tier            string             `json:"tier"`
	Seed            uint64             `json:"seed"`
	Build           string             `json:"build"`
	Evaluations     int64              `json:"evaluations"`
	DistinctNontriv int64              `json:"distinct_nontrivial"`
	Rule            string             `json:"rule"`
	Cells           map[string]int64   `json:"cells"`
	Targets         []Target           `json:"targets,omitempty"`
	Violations      []Violation        `json:"violations"`
	ViolTotal       int64              `json:"violations_total"`
	FreshTotal      int64              `json:"violations_fresh"`
	KnownCounts     map[string]int64   `json:"known_counts,omitempty"`
	Samples         []Case             `json:"samples"`
	Max             map[string]float64 `json:"max,omitempty"`
	MaxCase         map[string]Case    `json:"max_case,omitempty"`
	Inconclusive    []string           `json:"inconclusive,omitempty"`
	InconCounts     map[string]int64   `json:"inconclusive_counts,omitempty"`
	Assumptions     []string           `json:"assumptions,omitempty"`
	Extra           map[string]any     `json:"extra,omitempty"`
	CoverFuncs      []string           `json:"cover_funcs,omitempty"`
	Internal        string             `json:"internal_error,omitempty"`
	Completed       bool               `json:"completed"`
	Stalled         string             `json:"stalled,omitempty"` // a shard made no progress for the stall limit: no verdict
}

// Target is a coverage floor over cell names: the run is inconclusive unless at
// least Min of the cells with the given prefix were hit (Total is the size of
// the cell space, for the report).
type Target struct {
	Prefix string `json:"prefix"`
	Total  int    `json:"total"`
	Min    int    `json:"min"`
	Hit    int    `json:"hit"`
}

// Collector merges shards.
type Collector struct {
	mu     sync.Mutex
	Res    Result
	hashes []uint64
}

func NewCollector(prop, tier string, seed uint64) *Collector {
	return &Collector{Res: Result{Prop: prop, Tier: tier, Seed: seed, Cells: map[string]int64{}, Max: map[string]float64{}, MaxCase: map[string]Case{}, InconCounts: map[string]int64{}, Extra: map[string]any{}}}
}

func (c *Collector) Merge(s *Shard) {
	c.mu.Lock()
	defer c.mu.Unlock()
	c.Res.Evaluations += s.Evals
	c.hashes = append(c.hashes, s.nontrivial...)
	for k, v := range s.Cells {
		c.Res.Cells[k] += v
	}
	for k, v := range s.Incon {
		c.Res.InconCounts[k] += v
	}
	for k, v := range s.Max {
		if old, ok := c.Res.Max[k]; !ok || v > old {
			c.Res.Max[k] = v
			if mc, ok := s.MaxCase[k]; ok {
				c.Res.MaxCase[k] = mc
			}
		}
	}
	c.Res.ViolTotal += s.ViolTotal
	c.Res.FreshTotal += s.FreshTotal
	if c.Res.KnownCounts == nil {
		c.Res.KnownCounts = map[string]int64{}
	}
	for k, v := range s.KnownCount {
		c.Res.KnownCounts[k] += v
	}
	if len(c.Res.Violations) < 4000 {
		c.Res.Violations = append(c.Res.Violations, s.Viol...)
	}
	if len(c.Res.Samples) < 12 {
		c.Res.Samples = append(c.Res.Samples, s.Samples...)
	}
}

// Finish computes the distinct count and evaluates the coverage targets.
func (c *Collector) Finish() *Result {
	sort.Slice(c.hashes, func(i, j int) bool { return c.hashes[i] < c.hashes[j] })
	var n int64
	for i, h := range c.hashes {
		if i == 0 || h != c.hashes[i-1] {
			n++
		}
	}
	c.Res.DistinctNontriv = n
	for i := range c.Res.Targets {
		t := &c.Res.Targets[i]
		t.Hit = 0
		for k := range c.Res.Cells {
			if len(k) >= len(t.Prefix) && k[:len(t.Prefix)] == t.Prefix {
				t.Hit++
			}
		}
		if t.Hit < t.Min {
			c.Res.Inconclusive = append(c.Res.Inconclusive, fmt.Sprintf("coverage floor not met: cells %q hit %d < %d (of %d)", t.Prefix, t.Hit, t.Min, t.Total))
		}
	}
	for k, v := range c.Res.InconCounts {
		if v > 0 {
			c.Res.Inconclusive = append(c.Res.Inconclusive, fmt.Sprintf("%d judgement(s) undecided: %s", v, k))
		}
	}
	sort.Strings(c.Res.Inconclusive)
	if c.Res.Evaluations == 0 {
		c.Res.Inconclusive = append(c.Res.Inconclusive, "no executions observed")
	}
	c.Res.Completed = true
	return &c.Res
}

func (r *Result) Write(path string) error {
	b, err := json.MarshalIndent(r, "", " ")
	if err != nil {
		return err
	}
	tmp := path + ".tmp"
	if err := os.WriteFile(tmp, b, 0o644); err != nil {
		return err
	}
	return os.Rename(tmp, path)
}
