package props

import (
	"fmt"
	"math/big"

	"verifharness/gen"
	"verifharness/mon"
	"verifharness/ref"
)

func init() {
	register(&Prop{
		ID: "C01",
		Rule: "pairs of finite operands built by (a) result-driven construction of the rounding cell (kept coefficient class, guard digit, sticky), " +
			"(b) exponent-gap sweep, (c) near-cancellation, (d) random hostile shapes; every pair is judged for Add/SubWithMode in all 6 modes and " +
			"Add/Sub under the current DefaultRoundingMode (6 phases). Oracle: exact big.Int sum rounded into the member set. " +
			"non-trivial = the exact sum is not a member (a rounding decision was taken) or operands cancel exactly; distinct = distinct (op,x,y,mode).",
		Run:    runC01,
		Replay: replayC01,
		Assume: []string{"harness BID decoder and big.Int arithmetic are correct", "VerifBits/VerifFromBits expose the true bits"},
		Cover:  []string{"Decimal.add", "Decimal.AddWithMode", "Decimal.SubWithMode", "RoundingMode.reduce128", "RoundingMode.reduce192", "RoundingMode.round"},
	})
}

// exactSum returns the exact value sx*cx*10^ex + sy*cy*10^ey as (neg, N, k):
// (-1)^neg * N * 10^k, N >= 0.
func exactSum(xn ref.Num, yn ref.Num, yneg bool) (bool, *big.Int, int) {
	k := xn.Exp
	if yn.Exp < k {
		k = yn.Exp
	}
	a := new(big.Int).Set(xn.Coef)
	if xn.Exp > k {
		a.Mul(a, ref.Pow10(xn.Exp-k))
	}
	b := new(big.Int).Set(yn.Coef)
	if yn.Exp > k {
		b.Mul(b, ref.Pow10(yn.Exp-k))
	}
	if xn.Neg {
		a.Neg(a)
	}
	if yneg {
		b.Neg(b)
	}
	a.Add(a, b)
	neg := a.Sign() < 0
	a.Abs(a)
	return neg, a, k
}

func guardClass(g int) string {
	switch {
	case g == 0:
		return "0"
	case g <= 3:
		return "1-3"
	case g == 4:
		return "4"
	case g == 5:
		return "5"
	case g <= 8:
		return "6-8"
	}
	return "9"
}

func stickyClass(x *ref.Exact) string {
	switch {
	case !x.Sticky:
		return "none"
	case x.StickyLo:
		return "lo"
	case x.StickyHi:
		return "hi"
	}
	return "mid"
}

var (
	c10e34m1 = new(big.Int).Sub(ref.Pow10(34), ref.One)
	c10e33   = ref.Pow10(33)
	cmaxd10m = new(big.Int).Sub(ref.CmaxP1d10, ref.One)
)

func seamClass(x *ref.Exact) string {
	switch {
	case x.Q.Cmp(ref.Cmax) == 0:
		return "Cmax"
	case x.Q.Cmp(ref.CmaxP1d10) == 0 || x.Q.Cmp(cmaxd10m) == 0:
		return "seam10"
	case x.Q.Cmp(c10e34m1) == 0:
		return "9x34"
	case x.Q.Cmp(c10e33) == 0:
		return "1e33"
	case x.E == ref.MinExp && x.Q.Cmp(c10e33) < 0:
		return "subn"
	case x.E == ref.MaxExp:
		return "top"
	}
	return "gen"
}

// decisionCell names the cell of the rounding decision table an inexact case
// falls into, as classified by the oracle.
func decisionCell(prefix string, x *ref.Exact, m ref.Mode) string {
	s := "+"
	if x.Neg {
		s = "-"
	}
	par := "e"
	if x.Q.Bit(0) == 1 {
		par = "o"
	}
	return fmt.Sprintf("%s/m%d/%s/g%s/s%s/%s/%s", prefix, int(m), s, guardClass(x.Guard), stickyClass(x), par, seamClass(x))
}

type addJudge struct {
	ctx *Ctx
	sh  *mon.Shard
}

// judgePair runs all 14 add/sub calls for the pair and judges each.
func (j *addJudge) judgePair(x, y ref.Bits, only string, onlyMode int) {
	xn, yn := ref.Decode(x), ref.Decode(y)
	if xn.Class != ref.Finite || yn.Class != ref.Finite {
		return
	}
	dx, dy := toD(x), toD(y)
	def := ref.Mode(j.ctx.defMode())
	for _, sub := range []bool{false, true} {
		yneg := yn.Neg != sub
		var ex *ref.Exact
		var cancel, bothZero, pass bool
		var passN ref.Num
		var passNeg bool
		switch {
		case xn.IsZero() && yn.IsZero():
			bothZero = true
		case xn.IsZero():
			pass, passN, passNeg = true, yn, yneg
		case yn.IsZero():
			pass, passN, passNeg = true, xn, xn.Neg
		default:
			neg, n, k := exactSum(xn, yn, yneg)
			if n.Sign() == 0 {
				cancel = true
			} else {
				ex = ref.PrepareScaled(neg, n, k)
			}
		}
		opW, opD := "AddWithMode", "Add"
		if sub {
			opW, opD = "SubWithMode", "Sub"
		}
		judge := func(op string, m ref.Mode, explicit bool) {
			if only != "" && (only != op || (explicit && onlyMode != int(m))) {
				return
			}
			var r D
			pv, pan := try(func() {
				switch {
				case explicit && !sub:
					r = dx.AddWithMode(dy, rm(m))
				case explicit && sub:
					r = dx.SubWithMode(dy, rm(m))
				case !sub:
					r = dx.Add(dy)
				default:
					r = dx.Sub(dy)
				}
			})
			mk := func() *mon.Case {
				c := j.ctx.NewCase(j.sh, op)
				c.X = []string{x.Hex(), y.Hex()}
				if explicit {
					c.Mode = int(m)
				}
				return c
			}
			nontriv := cancel || (ex != nil && !ex.IsExact)
			mv := uint64(99)
			if explicit {
				mv = uint64(m)
			}
			j.sh.Eval(hash2(op, x.Hi, x.Lo, y.Hi, y.Lo, mv), nontriv)
			if pan {
				j.sh.Violate(mk(), "panic", "no panic", fmt.Sprint(pv), "")
				return
			}
			got := num(r)
			var want string
			ok := false
			switch {
			case bothZero:
				zneg := xn.Neg && yneg
				want = fmt.Sprintf("zero neg=%v", zneg)
				ok = got.IsZero() && got.Neg == zneg
				j.sh.Cell("zero+zero")
			case pass:
				want = fmt.Sprintf("value of the non-zero operand, neg=%v", passNeg)
				ok = got.Class == ref.Finite && got.Neg == passNeg && ref.SameValue(got.Coef, got.Exp, passN.Coef, passN.Exp)
				j.sh.Cell("x+zero")
			case cancel:
				zneg := m == ref.ToNegInf
				want = fmt.Sprintf("zero neg=%v (exact cancellation)", zneg)
				ok = got.IsZero() && got.Neg == zneg
				j.sh.Cell("cancel")
			default:
				w := ex.Round(m, false)
				want = w.String()
				ok = w.Matches(got)
				if !ex.IsExact && !ex.Huge {
					j.sh.Cell(decisionCell("dt", ex, m))
					j.sh.Cell(fmt.Sprintf("inexact/m%d", int(m)))
					if w.Carry {
						j.sh.Cell("carry-over-Cmax")
					}
				} else {
					j.sh.Cell("exact")
				}
				if w.Inf {
					j.sh.Cell("result-inf")
				} else if w.Coef.Cmp(ref.Pow10(34)) >= 0 {
					j.sh.Cell("result-35-digit")
				}
			}
			if !ok {
				kind := "value"
				if got.Class == ref.NaN {
					kind = "nan-from-finite"
				} else if got.Class == ref.Inf {
					kind = "class"
				}
				j.sh.Violate(mk(), kind, want, got.String(), fmt.Sprintf("x=%v y=%v mode=%v", xn, yn, m))
			} else if nontriv && j.sh.Evals%50000 == 1 {
				j.sh.Sample(mk())
			}
		}
		for m := ref.Mode(0); m < ref.NumModes; m++ {
			judge(opW, m, true)
		}
		judge(opD, def, false)
	}
	g := xn.Exp - yn.Exp
	if g < 0 {
		g = -g
	}
	if g <= 80 {
		j.sh.Cell(fmt.Sprintf("gap/%d", g))
	} else {
		j.sh.Cell("gap/far")
	}
}

func (c *Ctx) defMode() int { return currentDefault() }

// buildDecisionPair constructs operands whose exact sum lands in a chosen
// region of the rounding decision table: a full-width kept coefficient Q at
// exponent E and a small addend that supplies guard digit and sticky part.
func buildDecisionPair(r *gen.RNG) (ref.Bits, ref.Bits) {
	var q *big.Int
	switch r.Intn(10) {
	case 0:
		q = new(big.Int).Sub(ref.Cmax, big.NewInt(int64(r.Intn(3))))
	case 1:
		q = new(big.Int).Add(ref.CmaxP1d10, big.NewInt(int64(r.Range(-2, 1))))
	case 2:
		q = new(big.Int).Sub(ref.Pow10(34), big.NewInt(int64(r.Range(1, 2))))
	case 3:
		q = new(big.Int).Add(ref.Pow10(33), big.NewInt(int64(r.Range(0, 1))))
	case 4:
		q = new(big.Int).Add(ref.Pow10(34), big.NewInt(int64(r.Range(0, 2))))
	case 5:
		q = r.Digits(35)
		if q.Cmp(ref.Cmax) > 0 {
			q.Mod(q, ref.CmaxP1)
		}
	case 6:
		q = r.Digits(r.Range(1, 33))
	default:
		q = r.Digits(34)
	}
	var e int
	switch r.Intn(8) {
	case 0:
		e = ref.MaxExp - r.Intn(2)
	case 1:
		e = ref.MinExp + r.Intn(40)
	default:
		e = r.Range(ref.MinExp+40, ref.MaxExp)
	}
	// small addend (g*10^m + t) * 10^(e-off-m)
	off := r.Range(1, 2)
	m := r.Intn(34)
	if e-off-m < ref.MinExp {
		m = e - off - ref.MinExp
		if m < 0 {
			off = e - ref.MinExp
			m = 0
			if off < 0 {
				off = 0
			}
		}
	}
	g := int64(r.Intn(10))
	if r.Chance(1, 3) {
		g = int64(r.Pick(0, 4, 5, 9))
	}
	var t *big.Int
	switch r.Intn(5) {
	case 0:
		t = new(big.Int)
	case 1:
		t = big.NewInt(1)
	case 2:
		t = new(big.Int).Sub(ref.Pow10(m), ref.One)
	default:
		t = r.BigBelow(ref.Pow10(m))
	}
	if m == 0 {
		t = new(big.Int)
	}
	small := new(big.Int).Mul(big.NewInt(g), ref.Pow10(m))
	small.Add(small, t)
	if small.Cmp(ref.Cmax) > 0 {
		small.Set(ref.Cmax)
	}
	x := ref.Encode(r.Bool(), q, e)
	y := ref.Encode(r.Bool(), small, e-off-m)
	if r.Chance(1, 4) {
		// a far-away tiny addend instead: pure sticky
		ye := gen.ClampExp(e - r.Pick(36, 37, 38, 39, 40, 41, 60, 100, 1000, 12000))
		c, _ := r.Coef()
		y = ref.Encode(r.Bool(), c, ye)
	}
	if r.Bool() {
		x, y = y, x
	}
	return x, y
}

// buildStructuredDiff constructs an effective subtraction x - y whose exact
// difference is D = Q*10^k + T with a chosen pattern T of k discarded digits
// (guard digit, a run of zeros, one more digit, tail): x is D rounded up to a
// multiple of 10^p (a short, "round" minuend at a larger exponent) and
// y = x - D < 10^p, so the subtrahend is shifted right and truncated during
// alignment whenever p is large.
func buildStructuredDiff(r *gen.RNG) (ref.Bits, ref.Bits) {
	k := r.Range(1, 12)
	lead := r.Range(10, 99)
	if r.Chance(1, 3) {
		lead = r.Pick(12, 13, 10, 33, 34, 99, 25, 50)
	}
	q := new(big.Int).Mul(big.NewInt(int64(lead)), ref.Pow10(32))
	switch r.Intn(4) {
	case 0: // round kept part
	case 1:
		q.Add(q, r.BigBelow(ref.Pow10(32)))
	case 2:
		q.Add(q, new(big.Int).Sub(ref.Pow10(32), big.NewInt(int64(r.Range(1, 3))))) // ...999
	default:
		q.Add(q, big.NewInt(int64(r.Range(0, 9))))
	}
	ds := make([]byte, k)
	for i := range ds {
		ds[i] = '0'
	}
	ds[0] = byte('0' + r.Pick(0, 0, 4, 5, 5, 9, r.Intn(10)))
	if k > 1 {
		pos := 1 + r.Intn(k-1)
		ds[pos] = byte('0' + r.Range(1, 9))
		switch r.Intn(4) {
		case 0:
		case 1:
			ds[k-1] = byte('0' + r.Range(1, 9))
		case 2:
			for i := pos + 1; i < k; i++ {
				ds[i] = '9'
			}
		default:
			for i := pos + 1; i < k; i++ {
				ds[i] = byte('0' + r.Intn(10))
			}
		}
	}
	t, _ := new(big.Int).SetString(string(ds), 10)
	D := new(big.Int).Mul(q, ref.Pow10(k))
	D.Add(D, t)
	p := r.Range(k, 34)
	if r.Chance(1, 3) {
		p = r.Pick(34, 33, 32, 30) // very short minuend, e.g. 2e38 - 49000.5
	}
	pw := ref.Pow10(p)
	xc := new(big.Int).Add(D, new(big.Int).Sub(pw, ref.One))
	xc.Quo(xc, pw) // ceil(D / 10^p)
	yc := new(big.Int).Mul(xc, pw)
	yc.Sub(yc, D)
	if yc.Sign() == 0 {
		yc.SetInt64(1)
	}
	E := r.Range(ref.MinExp, ref.MaxExp-p)
	if r.Chance(3, 4) {
		E = r.Range(-60, 60)
	}
	neg := r.Bool()
	x := ref.Encode(neg, xc, E+p)
	y := ref.Encode(!neg, yc, E) // added with opposite sign: effective subtraction under Add, true sum under Sub
	if r.Bool() {
		x, y = y, x
	}
	return x, y
}

func buildCancelPair(r *gen.RNG) (ref.Bits, ref.Bits) {
	c, _ := r.Coef()
	if c.Sign() == 0 {
		c = big.NewInt(1)
	}
	e := r.Exp()
	neg := r.Bool()
	x := ref.Encode(neg, c, e)
	// y = another encoding of nearly the same magnitude, opposite sign
	j := r.Intn(36)
	c2 := new(big.Int).Mul(c, ref.Pow10(j))
	e2 := e - j
	for c2.Cmp(ref.Cmax) > 0 || e2 < ref.MinExp {
		c2.Quo(c2, ref.Ten)
		e2++
	}
	switch r.Intn(6) {
	case 0:
	case 1:
		c2.Add(c2, ref.One)
	case 2:
		c2.Sub(c2, ref.One)
	case 3:
		c2.Add(c2, big.NewInt(int64(r.Range(-1000, 1000))))
	case 4:
		c2.Add(c2, r.BigBelow(ref.Pow10(r.Range(1, 20))))
	default:
		c2.Sub(c2, r.BigBelow(ref.Pow10(r.Range(1, 20))))
	}
	if c2.Sign() < 0 {
		c2.Neg(c2)
	}
	if c2.Cmp(ref.Cmax) > 0 {
		c2.Set(ref.Cmax)
	}
	y := ref.Encode(!neg, c2, e2)
	if r.Bool() {
		x, y = y, x
	}
	return x, y
}

func buildGapPair(r *gen.RNG, gap int) (ref.Bits, ref.Bits) {
	c1, _ := r.Coef()
	c2, _ := r.Coef()
	e1 := r.Exp()
	e2 := e1 - gap
	if e2 < ref.MinExp || e2 > ref.MaxExp {
		// re-anchor so that the gap is honoured
		if gap >= 0 {
			e1 = r.Range(ref.MinExp+gap, ref.MaxExp)
		} else {
			e1 = r.Range(ref.MinExp, ref.MaxExp+gap)
		}
		e2 = e1 - gap
	}
	return ref.Encode(r.Bool(), c1, e1), ref.Encode(r.Bool(), c2, e2)
}

func runC01(c *Ctx) {
	for def := ref.Mode(0); def < ref.NumModes; def++ {
		c.Parallel("pairs", def, func(sh *mon.Shard, r *gen.RNG) {
			j := &addJudge{ctx: c, sh: sh}
			n := c.N(12000, 150000)
			for i := 0; i < n; i++ {
				switch {
				case i%50 == 49:
					// zero operands: any exponent, either sign, against zero or finite
					x := ref.Encode(r.Bool(), new(big.Int), r.Exp())
					y := r.Finite()
					if r.Bool() {
						y = ref.Encode(r.Bool(), new(big.Int), r.Exp())
					}
					if r.Bool() {
						x, y = y, x
					}
					j.judgePair(x, y, "", 0)
				case i%10 < 5:
					x, y := buildDecisionPair(r)
					j.judgePair(x, y, "", 0)
				case i%10 < 7:
					var gap int
					if r.Chance(3, 4) {
						gap = r.Range(0, 80)
					} else {
						gap = r.Pick(100, 1000, 6000, 12287, 12286, 81, 90)
					}
					if r.Bool() {
						gap = -gap
					}
					x, y := buildGapPair(r, gap)
					j.judgePair(x, y, "", 0)
				case i%10 < 8:
					x, y := buildCancelPair(r)
					j.judgePair(x, y, "", 0)
				case i%10 < 9:
					x, y := buildStructuredDiff(r)
					j.sh.Cell("gen/structured-difference")
					j.judgePair(x, y, "", 0)
				default:
					x := r.Finite()
					y := r.FiniteNear(ref.Decode(x).Exp, r.Gap())
					if xn := ref.Decode(x); i%20 == 9 && !xn.IsZero() {
						// the second operand derived from part of the first one's coefficient
						y = r.WordImageOperand(r.Bool(), xn.Coef, xn.Exp)
						j.sh.Cell("gen/word-image-operand")
					}
					j.judgePair(x, y, "", 0)
				}
			}
		})
	}
	c.Col.Res.Targets = append(c.Col.Res.Targets,
		mon.Target{Prefix: "dt/", Total: 3864, Min: c.Pick(900, 1800)},
		mon.Target{Prefix: "gap/", Total: 82, Min: 82},
	)
}

func replayC01(c *Ctx, sh *mon.Shard, cs *mon.Case) {
	x, _ := ref.ParseHex(cs.X[0])
	y, _ := ref.ParseHex(cs.X[1])
	j := &addJudge{ctx: c, sh: sh}
	j.judgePair(x, y, cs.Op, cs.Mode)
}
