package props

import (
	"fmt"
	"math"
	"math/big"

	"github.com/woodsbury/decimal128"

	"verifharness/gen"
	"verifharness/mon"
	"verifharness/ref"
)

func init() {
	register(&Prop{
		ID: "C11",
		Rule: "New(sig,exp): sig in {+/-1, +/-9, +/-10^k, +/-(2^63-1), MinInt64, random} x exp in -6300..6300 (dense around both range ends) and int extremes; Ldexp(frac,exp): frac at both exponent ends with exp of the opposite sign up to +/-12400, " +
			"zeros/specials; Frexp on all finite classes plus Ldexp(Frexp(d)). Under each DefaultRoundingMode (6 phases). Oracle: exact scaling by 10^e rounded into the member set. " +
			"non-trivial = result is rounded, subnormal, zero-by-underflow or Inf, or (Frexp) a finite non-zero operand; distinct = distinct (op, arguments).",
		Run:    runC11,
		Replay: replayC11,
		Assume: []string{"harness BID decoder and big.Int arithmetic are correct"},
		Cover:  []string{"New", "Ldexp", "Frexp", "RoundingMode.reduce64", "RoundingMode.reduce128"},
	})
}

type scaleJudge struct {
	ctx *Ctx
	sh  *mon.Shard
}

func clipExp(e int) int {
	if e > 1_000_000 {
		return 1_000_000
	}
	if e < -1_000_000 {
		return -1_000_000
	}
	return e
}

// judgeScaled judges a result that must be N*10^k (N>0) with sign neg.
func (j *scaleJudge) judgeScaled(op string, mk func() *mon.Case, got ref.Num, neg bool, N *big.Int, k int, detail string) (nontriv bool) {
	def := ref.Mode(currentDefault())
	ex := ref.PrepareScaled(neg, N, clipExp(k))
	w := ex.Round(ref.NearestEven, false)
	cands := []ref.Rounded{w, ex.Round(ref.NearestEven, true)}
	if def != ref.NearestEven {
		cands = append(cands, ex.Round(def, false), ex.Round(def, true))
	}
	ok := false
	for _, c := range cands {
		if c.Matches(got) {
			ok = true
			break
		}
	}
	if !ok {
		kind := "value"
		if got.Class == ref.NaN {
			kind = "nan-from-finite"
		}
		j.sh.Violate(mk(), kind, w.String(), got.String(), detail)
		return !ex.IsExact
	}
	switch {
	case w.Inf:
		j.sh.Cell(op + "/inf")
	case w.IsZero() || cands[1].Flush:
		j.sh.Cell(op + "/underflow-zero")
	case !ex.IsExact:
		j.sh.Cell(op + "/rounded")
	case ex.E == ref.MinExp && ex.Q.Cmp(c10e33) < 0:
		j.sh.Cell(op + "/exact-subnormal")
	default:
		j.sh.Cell(op + "/exact")
	}
	if !ex.Huge {
		e := ex.E
		switch {
		case e <= ref.MinExp+40:
			j.sh.Cell(op + "/estar/low")
		case e >= ref.MaxExp-40:
			j.sh.Cell(op + "/estar/high")
		default:
			j.sh.Cell(op + "/estar/mid")
		}
	}
	return !ex.IsExact || w.Inf || ex.E == ref.MinExp
}

func (j *scaleJudge) judgeNew(sig int64, exp int) {
	def := currentDefault()
	mk := func() *mon.Case {
		c := j.ctx.NewCase(j.sh, "New")
		c.N = []int64{sig, int64(exp)}
		return c
	}
	var d D
	pv, pan := try(func() { d = decimal128.New(sig, exp) })
	if pan {
		j.sh.Eval(hash2("New", uint64(sig), uint64(exp), uint64(def)), true)
		j.sh.Violate(mk(), "panic", "no panic", fmt.Sprint(pv), "")
		return
	}
	got := num(d)
	detail := fmt.Sprintf("New(%d,%d) def=%v", sig, exp, ref.Mode(def))
	if sig == 0 {
		j.sh.Eval(hash2("New", uint64(sig), uint64(exp), uint64(def)), false)
		if !got.IsZero() || got.Neg {
			j.sh.Violate(mk(), "value", "+0", got.String(), detail)
		}
		j.sh.Cell("New/zero-sig")
		return
	}
	N := new(big.Int).SetInt64(sig)
	neg := sig < 0
	N.Abs(N)
	nt := j.judgeScaled("New", mk, got, neg, N, exp, detail)
	j.sh.Eval(hash2("New", uint64(sig), uint64(exp), uint64(def)), nt)
	if nt && j.sh.Evals%30000 < 3 {
		j.sh.Sample(mk())
	}
}

func (j *scaleJudge) judgeLdexp(b ref.Bits, exp int) {
	def := currentDefault()
	n := ref.Decode(b)
	mk := func() *mon.Case {
		c := j.ctx.NewCase(j.sh, "Ldexp")
		c.X = []string{b.Hex()}
		c.N = []int64{int64(exp)}
		return c
	}
	var d D
	pv, pan := try(func() { d = decimal128.Ldexp(toD(b), exp) })
	if pan {
		j.sh.Eval(hash2("Ldexp", b.Hi, b.Lo, uint64(exp), uint64(def)), true)
		j.sh.Violate(mk(), "panic", "no panic", fmt.Sprint(pv), "")
		return
	}
	got := num(d)
	detail := fmt.Sprintf("Ldexp(%v,%d) def=%v", n, exp, ref.Mode(def))
	if n.Class != ref.Finite || n.IsZero() {
		j.sh.Eval(hash2("Ldexp", b.Hi, b.Lo, uint64(exp), uint64(def)), false)
		if toB(d) != b {
			j.sh.Violate(mk(), "passthrough", "zero/NaN/Inf returned unchanged (bit-identical)", got.String(), detail)
		}
		j.sh.Cell("Ldexp/passthrough")
		return
	}
	k := clipExp(exp)
	if k > -1_000_000 && k < 1_000_000 {
		k += n.Exp
	}
	nt := j.judgeScaled("Ldexp", mk, got, n.Neg, n.Coef, k, detail)
	j.sh.Eval(hash2("Ldexp", b.Hi, b.Lo, uint64(exp), uint64(def)), nt)
}

func (j *scaleJudge) judgeFrexp(b ref.Bits) {
	n := ref.Decode(b)
	mk := func() *mon.Case {
		c := j.ctx.NewCase(j.sh, "Frexp")
		c.X = []string{b.Hex()}
		return c
	}
	var f D
	var e int
	pv, pan := try(func() { f, e = decimal128.Frexp(toD(b)) })
	j.sh.Eval(hash2("Frexp", b.Hi, b.Lo), n.Class == ref.Finite && !n.IsZero())
	if pan {
		j.sh.Violate(mk(), "panic", "no panic", fmt.Sprint(pv), "")
		return
	}
	fn := num(f)
	detail := fmt.Sprintf("Frexp(%v) = (%v, %d)", n, fn, e)
	if n.Class != ref.Finite || n.IsZero() {
		if toB(f) != b || e != 0 {
			j.sh.Violate(mk(), "passthrough", "(d, 0) unchanged", fmt.Sprintf("(%v, %d)", fn, e), detail)
		}
		j.sh.Cell("Frexp/passthrough")
		return
	}
	// 0.1 <= |frac| < 1: digits(frac.coef) + frac.exp == 0
	if fn.Class != ref.Finite || fn.IsZero() || fn.Neg != n.Neg || ref.NumDigits(fn.Coef)+fn.Exp != 0 {
		j.sh.Violate(mk(), "range", "0.1 <= |frac| < 1 with d's sign", fmt.Sprintf("(%v, %d)", fn, e), detail)
		return
	}
	// frac * 10^e == d exactly
	if !ref.SameValue(fn.Coef, fn.Exp+e, n.Coef, n.Exp) {
		j.sh.Violate(mk(), "value", "frac * 10^e == d exactly", fmt.Sprintf("(%v, %d)", fn, e), detail)
		return
	}
	// Ldexp(Frexp(d)) value-equal to d
	var back D
	_, pan2 := try(func() { back = decimal128.Ldexp(f, e) })
	bn := num(back)
	if pan2 || bn.Class != ref.Finite || bn.Neg != n.Neg || !ref.SameValue(bn.Coef, bn.Exp, n.Coef, n.Exp) {
		j.sh.Violate(mk(), "roundtrip", "Ldexp(Frexp(d)) == d", bn.String(), detail)
		return
	}
	j.sh.Cell("Frexp/ok")
	switch {
	case n.Exp <= ref.MinExp+40:
		j.sh.Cell("Frexp/exp/low")
	case n.Exp >= ref.MaxExp-40:
		j.sh.Cell("Frexp/exp/high")
	default:
		j.sh.Cell("Frexp/exp/mid")
	}
}

// subnormalNew builds New arguments whose value lands in the subnormal band
// with a chosen pattern of discarded digits (guard digit, zeros, sticky tail).
func subnormalNew(r *gen.RNG) (int64, int) {
	k := r.Range(1, 18) // digits discarded below 1e-6176
	keepDigits := r.Range(0, 18-k)
	var keep int64
	if keepDigits > 0 {
		keep = r.Digits(keepDigits).Int64()
		if r.Bool() {
			keep &^= 1 // even kept coefficient: ties go down
		}
	}
	p := int64(1)
	for i := 0; i < k; i++ {
		p *= 10
	}
	g := int64(r.Pick(0, 4, 5, 5, 5, 9, r.Intn(10)))
	tail := g * (p / 10)
	if k > 1 {
		switch r.Intn(4) {
		case 0:
		case 1:
			tail += 1
		case 2:
			tail += p/10 - 1
		default:
			tail += int64(r.U64() % uint64(p/10))
		}
	}
	sig := keep*p + tail
	if sig == 0 {
		sig = 5
	}
	if r.Bool() {
		sig = -sig
	}
	return sig, ref.MinExp - k
}

func genNewArgs(r *gen.RNG) (int64, int) {
	if r.Chance(1, 4) {
		return subnormalNew(r)
	}
	if r.Chance(1, 8) {
		// significand padded with zeros next to an internal threshold (largest coefficient, word boundaries,
		// x10 guards), at and around the largest exponent where the padding is what keeps the value finite
		sig, k := r.ThresholdInt64()
		if r.Bool() {
			sig = -sig
		}
		return sig, k + r.Pick(ref.MaxExp, ref.MaxExp, ref.MaxExp, ref.MaxExp-1, ref.MaxExp+1, ref.MaxExp-r.Intn(40), 0, ref.MinExp, r.Range(-60, 60))
	}
	var sig int64
	switch r.Intn(8) {
	case 0:
		sig = int64(r.Pick(1, 9, 5, 10, 15, 25, 99))
	case 1:
		sig = 1
		for i := r.Intn(19); i > 0; i-- {
			sig *= 10
		}
	case 2:
		sig = math.MaxInt64 - int64(r.Intn(3))
	case 3:
		sig = math.MinInt64 + int64(r.Intn(3))
	case 4:
		sig = int64(r.U64() >> uint(r.Intn(64)))
	case 5:
		sig = 0
	case 6: // tie-shaped: ...5 with trailing zeros
		sig = int64(r.Range(1, 99999))*10 + 5
		for i := r.Intn(12); i > 0; i-- {
			sig *= 10
		}
	default:
		sig = int64(r.U64())
	}
	if r.Bool() && sig != math.MinInt64 {
		sig = -sig
	}
	var exp int
	switch r.Intn(8) {
	case 0, 1:
		exp = r.Range(-6215, -6150)
	case 2, 3:
		exp = r.Range(6090, 6160)
	case 4:
		exp = r.Range(-6300, 6300)
	case 5:
		exp = r.Pick(math.MinInt, math.MinInt+1, -1_000_000, 1_000_000, math.MaxInt, math.MaxInt-1, -1<<31, 1<<31, -32768, 32767, -32769, 32768, -65536, 65536, 59360, -59360)
	default:
		exp = r.Range(-60, 60)
	}
	return sig, exp
}

func genLdexpArgs(r *gen.RNG) (ref.Bits, int) {
	switch r.Intn(8) {
	case 0: // frac at the low end, exp positive and large
		c, _ := r.Coef()
		b := ref.Encode(r.Bool(), c, ref.MinExp+r.Intn(80))
		return b, r.Pick(r.Range(0, 12400), r.Range(12200, 12400), r.Range(6000, 6300))
	case 1: // frac at the high end, exp negative and large
		c, _ := r.Coef()
		b := ref.Encode(r.Bool(), c, ref.MaxExp-r.Intn(80))
		return b, -r.Pick(r.Range(0, 12400), r.Range(12200, 12400), r.Range(6000, 6300))
	case 2: // result around the subnormal band / flush threshold
		c := thresholdCoef(r)
		e := r.Exp()
		target := -6177 - (ref.NumDigits(c) - 1) + r.Range(-3, 38)
		return ref.Encode(r.Bool(), c, e), target - e
	case 3: // result around MaxFinite
		c := thresholdCoef(r)
		e := r.Exp()
		target := 6145 - (ref.NumDigits(c) - 1) + r.Range(-37, 3)
		return ref.Encode(r.Bool(), c, e), target - e
	case 6: // result-driven: exactly jd digits are shifted out below the minimum exponent and the kept coefficient is
		// an internal threshold (2^64-1, 2^64, 2^63, word boundaries ...) with a chosen discarded part
		kept := r.ThresholdExact()
		nd := ref.NumDigits(kept)
		if nd <= 33 {
			jd := r.Range(1, 34-nd)
			tail := new(big.Int).Mul(big.NewInt(int64(r.Pick(5, 5, 4, 9, 0, 6))), ref.Pow10(jd-1))
			switch r.Intn(3) {
			case 1:
				tail.Add(tail, ref.One)
			case 2:
				tail.Add(tail, r.BigBelow(ref.Pow10(jd-1)))
			}
			c := new(big.Int).Mul(kept, ref.Pow10(jd))
			c.Add(c, tail)
			if c.Cmp(ref.Cmax) <= 0 {
				e := r.Exp()
				return ref.Encode(r.Bool(), c, e), ref.MinExp - jd - e
			}
		}
		return r.Finite(), r.Range(-7000, 7000)
	case 4:
		return r.AnyBits(), r.Pick(0, 1, -1, math.MinInt, math.MaxInt, -1<<31, 1<<31, 32768, -32768, 65536, -65536, r.Range(-13000, 13000))
	case 5:
		return ref.Encode(r.Bool(), new(big.Int), r.Exp()), r.Range(-13000, 13000)
	}
	return r.Finite(), r.Range(-7000, 7000)
}

func runC11(c *Ctx) {
	for def := ref.Mode(0); def < ref.NumModes; def++ {
		c.Parallel("scale", def, func(sh *mon.Shard, r *gen.RNG) {
			j := &scaleJudge{ctx: c, sh: sh}
			n := c.N(30000, 250000)
			for i := 0; i < n; i++ {
				s, e := genNewArgs(r)
				j.judgeNew(s, e)
				b, e2 := genLdexpArgs(r)
				j.judgeLdexp(b, e2)
				if def == ref.NearestEven {
					if i%3 == 0 {
						j.judgeFrexp(r.AnyBits())
					} else {
						j.judgeFrexp(r.Finite())
					}
				}
			}
		})
	}
	c.Col.Res.Targets = append(c.Col.Res.Targets,
		mon.Target{Prefix: "New/", Total: 9, Min: 8},
		mon.Target{Prefix: "Ldexp/", Total: 9, Min: 8},
		mon.Target{Prefix: "Frexp/", Total: 5, Min: 5},
	)
}

func replayC11(c *Ctx, sh *mon.Shard, cs *mon.Case) {
	j := &scaleJudge{ctx: c, sh: sh}
	switch cs.Op {
	case "New":
		j.judgeNew(cs.N[0], int(cs.N[1]))
	case "Ldexp":
		b, _ := ref.ParseHex(cs.X[0])
		j.judgeLdexp(b, int(cs.N[0]))
	case "Frexp":
		b, _ := ref.ParseHex(cs.X[0])
		j.judgeFrexp(b)
	}
}
