package props

import (
	"fmt"
	"math"
	"math/big"
	"regexp"
	"strings"

	"github.com/woodsbury/decimal128"

	"verifharness/gen"
	"verifharness/mon"
	"verifharness/ref"
)

func init() {
	register(&Prop{
		ID: "C15",
		Rule: "full cross product of 15 operand classes {NaN(any payload/sign), +/-Inf (canonical and with garbage bits), +/-0 (any exponent), +/-fraction below 1, +/-1 (any cohort), +/-non-integer above 1, +/-odd integer, +/-even integer} " +
			"for every binary operation x 6 modes, all 15 classes for every unary operation, dp in {-3,0,3} for the rounding methods; random members per cell incl. non-canonical encodings. " +
			"Oracle: result class and sign from the corresponding Go float64 operation on dyadic class representatives (judged when an operand is NaN/Inf/zero or the operation is invalid), NaN operand propagated bit-identically, " +
			"invalid-operation payload text built from the harness's own op/class name table, and the four-way classification predicates against the harness decoder. non-trivial = a special operand or invalid operation; distinct = distinct (op, operand bits, mode).",
		Run:    runC15,
		Replay: replayC15,
		Assume: []string{"Go's float64 math functions define the special-case table (as the statement says)"},
		Cover:  []string{"Decimal.AddWithMode", "Decimal.SubWithMode", "Decimal.MulWithMode", "Decimal.QuoWithMode", "Decimal.QuoRemWithMode", "Decimal.PowWithMode", "Exp", "Exp2", "Exp10", "Expm1", "Log", "Log2", "Log10", "Log1p", "Sqrt", "Cbrt", "Decimal.Payload", "Payload.String", "nan"},
	})
}

type opClass struct {
	name string
	rep  float64
	gen  func(r *gen.RNG) ref.Bits
}

func cohortOf(r *gen.RNG, neg bool, c *big.Int, e int) ref.Bits {
	// random cohort member of c*10^e
	cc := new(big.Int).Set(c)
	ee := e
	for k := r.Intn(8); k > 0; k-- {
		t := new(big.Int).Mul(cc, ref.Ten)
		if t.Cmp(ref.Cmax) > 0 || ee-1 < ref.MinExp {
			break
		}
		cc, ee = t, ee-1
	}
	return ref.Encode(neg, cc, ee)
}

// shapedCoef returns a coefficient of a uniformly chosen length 1..35 whose
// last digit is non-zero and whose leading digits are biased towards 1.0..1.9
// (where one-word / two-word and digit-count boundaries of multi-word
// arithmetic lie: 2^64 = 1.84e19, 2^63 = 9.2e18, Cmax = 1.298e34).
func shapedCoef(r *gen.RNG) *big.Int {
	nd := r.Range(1, 35)
	var c *big.Int
	if nd == 35 {
		c = wide35(r)
	} else {
		c = r.Digits(nd)
		if nd >= 2 && r.Bool() {
			// leading digit 1
			c.Mod(c, ref.Pow10(nd-1))
			c.Add(c, ref.Pow10(nd-1))
		}
	}
	if new(big.Int).Mod(c, ref.Ten).Sign() == 0 {
		c.Add(c, ref.One)
	}
	return c
}

// wide35 returns a 35-digit coefficient (10^34 .. Cmax), biased to the ends of that interval.
func wide35(r *gen.RNG) *big.Int {
	lo := ref.Pow10(34)
	span := new(big.Int).Sub(ref.Cmax, lo)
	var c *big.Int
	switch r.Intn(4) {
	case 0:
		c = new(big.Int).Add(lo, big.NewInt(int64(r.Range(0, 1000))))
	case 1:
		c = new(big.Int).Sub(ref.Cmax, big.NewInt(int64(r.Range(0, 1000))))
	default:
		c = new(big.Int).Mod(r.Digits(34), span)
		c.Add(c, lo)
	}
	return c
}

func opClasses() []opClass {
	mkFinite := func(neg bool, kind string) func(r *gen.RNG) ref.Bits {
		return func(r *gen.RNG) ref.Bits {
			switch kind {
			case "frac": // 0 < |v| < 1, never an integer
				if r.Chance(1, 4) {
					// any coefficient length (word boundary at 19/20 digits included), value just below one or smaller
					c := shapedCoef(r)
					return ref.Encode(neg, c, gen.ClampExp(-ref.NumDigits(c)-r.Pick(0, 0, 0, 1, 2, 5)))
				}
				if r.Chance(1, 8) {
					// coefficient next to an internal threshold (2^113, word boundaries, ...), exact or cohort-scaled
					c := r.ThresholdCoef()
					if r.Bool() {
						c = r.ThresholdExact()
					}
					return ref.Encode(neg, c, gen.ClampExp(-ref.NumDigits(c)-r.Pick(0, 0, 1, 2, 3, 4, 5, 6, 7, 8, 40, 3000)))
				}
				if r.Chance(1, 4) {
					// full-width members: 34 digits in [0.1,1), 35 digits below 0.1298, and the neighbours of one from below
					switch r.Intn(3) {
					case 0:
						c := r.Digits(34)
						c.Or(c, ref.One)
						return ref.Encode(neg, c, -34-r.Pick(0, 0, 1, 7))
					case 1:
						c := wide35(r)
						c.Or(c, ref.One)
						return ref.Encode(neg, c, -35-r.Pick(0, 0, 1, 7))
					default:
						n := r.Pick(34, 34, 33, 20, 5)
						c := new(big.Int).Sub(ref.Pow10(n), big.NewInt(int64(r.Pick(1, 1, 2, 3, 7))))
						return ref.Encode(neg, c, -n)
					}
				}
				c := r.Digits(r.Range(1, 30))
				if new(big.Int).Mod(c, ref.Ten).Sign() == 0 {
					c.Add(c, ref.One)
				}
				e := -ref.NumDigits(c) - r.Pick(0, 0, 1, 5, 40, 3000)
				return cohortOf(r, neg, c, gen.ClampExp(e))
			case "one":
				// any of the 35 encodings of one (10^k e-k): the library recognises one by comparing the coefficient
				// with a table of powers of ten (seed C11-pow10-table-entry-1e23-typo: one wrong entry)
				k := r.Intn(35)
				return ref.Encode(neg, ref.Pow10(k), -k)
			case "nonint": // > 1, not an integer
				if r.Chance(1, 10) {
					// binary image: the low word of the coefficient alone spells a special value (10^j = "one" at
					// exponent -j, 0, 1, 2^63) while the high word is not zero
					jz := r.Range(1, 19)
					w := new(big.Int).Set(ref.Pow10(jz))
					if r.Chance(1, 4) {
						w = new(big.Int).SetUint64(uint64(r.Pick(0, 1, 5)) + uint64(r.Intn(2))<<63)
					}
					c := new(big.Int).Lsh(big.NewInt(int64(r.Pick(1, 1, 2, 3, 30, r.Range(1, 1<<30)))), 64)
					c.Add(c, w)
					if c.Cmp(ref.Cmax) <= 0 && new(big.Int).Mod(c, ref.Pow10(jz)).Sign() != 0 {
						return ref.Encode(neg, c, -jz)
					}
				}
				if r.Chance(1, 4) {
					// any coefficient length with the point anywhere inside it: 1 <= |v|, fractional digits present
					c := shapedCoef(r)
					nd := ref.NumDigits(c)
					if nd >= 2 {
						e := -r.Range(1, nd-1)
						if r.Bool() {
							e = -(nd - 1) // exactly one integer digit: 1.xxx .. 9.xxx
						}
						if c.Cmp(ref.Pow10(nd-1)) == 0 {
							c.Add(c, ref.One) // not the integer 10^(nd-1)*10^e
						}
						return ref.Encode(neg, c, e)
					}
				}
				if r.Chance(1, 4) {
					// full-width members just above one: 35-digit coefficients at exponent -34 (1 < |v| < 1.2981),
					// 34-digit coefficients at exponent -33, and 1 + k units in the last place
					switch r.Intn(3) {
					case 0:
						c := wide35(r)
						c.Or(c, ref.One)
						return ref.Encode(neg, c, -34)
					case 1:
						c := r.Digits(34)
						c.Or(c, ref.One)
						return ref.Encode(neg, c, -33)
					default:
						n := r.Pick(34, 33, 33, 20, 5)
						c := new(big.Int).Add(ref.Pow10(n), big.NewInt(int64(r.Pick(1, 1, 2, 3, 7))))
						return ref.Encode(neg, c, -n)
					}
				}
				k := r.Range(1, 6)
				c := r.Digits(k + r.Range(1, 12))
				if new(big.Int).Mod(c, ref.Ten).Sign() == 0 {
					c.Add(c, ref.One)
				}
				if c.Cmp(new(big.Int).Mul(big.NewInt(2), ref.Pow10(k))) < 0 {
					c.Add(c, new(big.Int).Mul(big.NewInt(2), ref.Pow10(k)))
				}
				return cohortOf(r, neg, c, -k)
			case "odd": // odd integer > 1
				if r.Chance(1, 8) {
					c := r.ThresholdCoef()
					if r.Bool() {
						c = r.ThresholdExact()
					}
					c.SetBit(c, 0, 1)
					if c.Cmp(big.NewInt(3)) < 0 {
						c = big.NewInt(3)
					}
					return ref.Encode(neg, c, 0)
				}
				c := r.Digits(r.Pick(1, 1, 2, 5, 18, 30, 34))
				if r.Chance(1, 12) {
					c = wide35(r)
				}
				if c.Bit(0) == 0 {
					c.Add(c, ref.One)
				}
				if c.Cmp(big.NewInt(3)) < 0 {
					c = big.NewInt(3)
				}
				return cohortOf(r, neg, c, 0)
			default: // even integer > 1
				if r.Chance(1, 6) {
					// threshold coefficient: at a positive exponent (any coefficient is then even), or made even at exponent 0
					c := r.ThresholdCoef()
					if r.Bool() {
						c = r.ThresholdExact()
					}
					if c.Cmp(big.NewInt(4)) < 0 {
						c = big.NewInt(4)
					}
					if e := r.Pick(0, 0, 1, 2, 3, 4, 5, 8, 12, 16, 300); e > 0 {
						return ref.Encode(neg, c, e)
					}
					c.SetBit(c, 0, 0)
					return ref.Encode(neg, c, 0)
				}
				if r.Chance(1, 3) {
					c := r.Digits(r.Range(1, 20))
					return ref.Encode(neg, c, r.Pick(1, 2, 5, 30, 300)) // positive exponent: even
				}
				c := r.Digits(r.Pick(1, 2, 5, 18, 30, 34))
				if r.Chance(1, 12) {
					c = wide35(r)
				}
				if c.Bit(0) == 1 {
					c.Sub(c, ref.One)
				}
				if c.Cmp(big.NewInt(2)) < 0 {
					c = big.NewInt(2)
				}
				return cohortOf(r, neg, c, 0)
			}
		}
	}
	inf := func(neg bool) func(r *gen.RNG) ref.Bits {
		return func(r *gen.RNG) ref.Bits {
			b := ref.EncodeInf(neg)
			if r.Bool() {
				b.Hi |= r.U64() & 0x03ff_ffff_ffff_ffff
				b.Lo = r.U64()
			}
			return b
		}
	}
	zero := func(neg bool) func(r *gen.RNG) ref.Bits {
		return func(r *gen.RNG) ref.Bits { return ref.Encode(neg, new(big.Int), r.Exp()) }
	}
	return []opClass{
		{"NaN", math.NaN(), func(r *gen.RNG) ref.Bits {
			b := ref.Bits{Hi: 0x7c00_0000_0000_0000 | (r.U64() & 0x83ff_ffff_ffff_ffff), Lo: r.U64()}
			if r.Bool() {
				b.Lo &= 0xffffff
				b.Hi &= 0xfc00_0000_0000_0000
			}
			return b
		}},
		{"+Inf", math.Inf(1), inf(false)}, {"-Inf", math.Inf(-1), inf(true)},
		{"+0", 0, zero(false)}, {"-0", math.Copysign(0, -1), zero(true)},
		{"+frac", 0.5, mkFinite(false, "frac")}, {"-frac", -0.5, mkFinite(true, "frac")},
		{"+1", 1, mkFinite(false, "one")}, {"-1", -1, mkFinite(true, "one")},
		{"+nonint", 2.5, mkFinite(false, "nonint")}, {"-nonint", -2.5, mkFinite(true, "nonint")},
		{"+odd", 3, mkFinite(false, "odd")}, {"-odd", -3, mkFinite(true, "odd")},
		{"+even", 4, mkFinite(false, "even")}, {"-even", -4, mkFinite(true, "even")},
	}
}

// resClass describes class and sign: "nan", "+inf", "-inf", "+0", "-0", "+fin", "-fin".
func floatClass(f float64) string {
	switch {
	case math.IsNaN(f):
		return "nan"
	case math.IsInf(f, 1):
		return "+inf"
	case math.IsInf(f, -1):
		return "-inf"
	case f == 0 && math.Signbit(f):
		return "-0"
	case f == 0:
		return "+0"
	case f < 0:
		return "-fin"
	}
	return "+fin"
}

func numClass(n ref.Num) string {
	s := "+"
	if n.Neg {
		s = "-"
	}
	switch {
	case n.Class == ref.NaN:
		return "nan"
	case n.Class == ref.Inf:
		return s + "inf"
	case n.IsZero():
		return s + "0"
	}
	return s + "fin"
}

func payloadClassName(n ref.Num) string {
	s := ""
	if n.Neg {
		s = "-"
	}
	switch {
	case n.Class == ref.Inf:
		return s + "Infinite"
	case n.IsZero():
		return s + "Zero"
	}
	return s + "Finite"
}

func isSpecialOrZero(n ref.Num) bool { return n.Class != ref.Finite || n.IsZero() }

type specJudge struct {
	ctx *Ctx
	sh  *mon.Shard
}

type binOp struct {
	name    string // payload op name
	withMod func(x, y D, m decimal128.RoundingMode) D
	plain   func(x, y D) D
	f       func(a, b float64) float64
}

var binOps = []binOp{
	{"Add", func(x, y D, m decimal128.RoundingMode) D { return x.AddWithMode(y, m) }, func(x, y D) D { return x.Add(y) }, func(a, b float64) float64 { return a + b }},
	{"Sub", func(x, y D, m decimal128.RoundingMode) D { return x.SubWithMode(y, m) }, func(x, y D) D { return x.Sub(y) }, func(a, b float64) float64 { return a - b }},
	{"Mul", func(x, y D, m decimal128.RoundingMode) D { return x.MulWithMode(y, m) }, func(x, y D) D { return x.Mul(y) }, func(a, b float64) float64 { return a * b }},
	{"Quo", func(x, y D, m decimal128.RoundingMode) D { return x.QuoWithMode(y, m) }, func(x, y D) D { return x.Quo(y) }, func(a, b float64) float64 { return a / b }},
	{"Pow", func(x, y D, m decimal128.RoundingMode) D { return x.PowWithMode(y, m) }, func(x, y D) D { return x.Pow(y) }, math.Pow},
}

type unOp struct {
	name string
	f    func(x D) D
	g    func(a float64) float64
}

var unOps = []unOp{
	{"Exp", decimal128.Exp, math.Exp}, {"Exp2", decimal128.Exp2, math.Exp2},
	{"Exp10", decimal128.Exp10, func(a float64) float64 { return math.Pow(10, a) }},
	{"Expm1", decimal128.Expm1, math.Expm1},
	{"Log", decimal128.Log, math.Log}, {"Log2", decimal128.Log2, math.Log2}, {"Log10", decimal128.Log10, math.Log10}, {"Log1p", decimal128.Log1p, math.Log1p},
	{"Sqrt", decimal128.Sqrt, math.Sqrt}, {"Cbrt", decimal128.Cbrt, math.Cbrt},
	{"Floor", decimal128.Floor, math.Floor}, {"Ceil", decimal128.Ceil, math.Ceil}, {"Trunc", decimal128.Trunc, math.Trunc}, {"Round", decimal128.Round, math.Round},
	{"Abs", decimal128.Abs, math.Abs}, {"Neg", func(x D) D { return x.Neg() }, func(a float64) float64 { return -a }},
}

func (j *specJudge) checkPayload(mk func() *mon.Case, r D, wantText string, detail string) {
	var text string
	pv, pan := try(func() { text = r.Payload().String() })
	if pan {
		j.sh.Violate(mk(), "panic", "Payload of a NaN result", fmt.Sprint(pv), detail)
		return
	}
	if text != wantText && !samePayloadMeaning(wantText, text) {
		j.sh.Violate(mk(), "payload", wantText, text, detail)
		return
	}
	j.sh.Cell("payload-checked")
}

var payloadOperandRE = regexp.MustCompile(`(-|\+|neg(?:ative)?[ _]?|pos(?:itive)?[ _]?)?(zero|finite|fin|infinite|infinity|inf|nan|0)`)
var payloadOpRE = regexp.MustCompile(`^[^a-z0-9]*([a-z][a-z0-9]*)`)

// payloadMeaning reduces a payload text to the operation name and the ordered
// list of signed operand classes it mentions, so that the statement ("reports
// the operation and the operand classes") is judged rather than one wording.
func payloadMeaning(text string) (op string, operands []string) {
	t := strings.ToLower(text)
	m := payloadOpRE.FindStringSubmatchIndex(t)
	if m == nil {
		return "", nil
	}
	op = t[m[2]:m[3]]
	for _, g := range payloadOperandRE.FindAllStringSubmatch(t[m[3]:], -1) {
		sign := "+"
		if strings.HasPrefix(g[1], "-") || strings.HasPrefix(g[1], "neg") {
			sign = "-"
		}
		cl := g[2]
		switch {
		case cl == "0" || cl == "zero":
			cl = "zero"
		case strings.HasPrefix(cl, "inf"):
			cl = "inf"
		case strings.HasPrefix(cl, "fin"):
			cl = "finite"
		}
		operands = append(operands, sign+cl)
	}
	return op, operands
}

func samePayloadMeaning(want, got string) bool {
	wo, wa := payloadMeaning(want)
	g, ga := payloadMeaning(got)
	if wo == "" || wo != g || len(wa) != len(ga) {
		return false
	}
	for i := range wa {
		if wa[i] != ga[i] {
			return false
		}
	}
	return true
}

func (j *specJudge) judgeBinary(oi int, x, y ref.Bits, cx, cy *opClass, mode int, only bool) {
	op := binOps[oi]
	xn, yn := ref.Decode(x), ref.Decode(y)
	dx, dy := toD(x), toD(y)
	opName := op.name
	if mode >= 0 {
		opName += "WithMode"
	}
	mk := func() *mon.Case {
		c := j.ctx.NewCase(j.sh, opName)
		c.X = []string{x.Hex(), y.Hex()}
		c.Mode = mode
		c.S = []string{cx.name, cy.name}
		return c
	}
	var r D
	pv, pan := try(func() {
		if mode >= 0 {
			r = op.withMod(dx, dy, decimal128.RoundingMode(mode))
		} else {
			r = op.plain(dx, dy)
		}
	})
	want := floatClass(op.f(cx.rep, cy.rep))
	special := isSpecialOrZero(xn) || isSpecialOrZero(yn)
	invalid := want == "nan" && xn.Class != ref.NaN && yn.Class != ref.NaN
	j.sh.Eval(hash2(opName, x.Hi, x.Lo, y.Hi, y.Lo, uint64(mode+1)), special || invalid)
	detail := fmt.Sprintf("%s(%s=%v, %s=%v) mode=%d float64 model: %v", op.name, cx.name, xn, cy.name, yn, mode, op.f(cx.rep, cy.rep))
	if pan {
		j.sh.Violate(mk(), "panic", "no panic", fmt.Sprint(pv), detail)
		return
	}
	got := num(r)
	gc := numClass(got)
	j.sh.Cell(fmt.Sprintf("bin/%s/%s/%s", op.name, cx.name, cy.name))
	if !special && !invalid {
		// ordinary finite operands: only "never NaN"
		if got.Class == ref.NaN {
			j.sh.Violate(mk(), "nan-from-finite", "not NaN", got.String(), detail)
		}
		return
	}
	if gc != want {
		kind := "class"
		if len(gc) > 1 && len(want) > 1 && gc[1:] == want[1:] {
			kind = "sign"
		}
		j.sh.Violate(mk(), kind, want, gc+" ("+got.String()+")", detail)
		return
	}
	if got.Class == ref.NaN {
		if xn.Class == ref.NaN || yn.Class == ref.NaN {
			// propagate one of the NaN operands bit for bit
			rb := toB(r)
			if !((xn.Class == ref.NaN && rb == x) || (yn.Class == ref.NaN && rb == y)) {
				j.sh.Violate(mk(), "nan-propagation", "bit-identical to a NaN operand", rb.Hex(), detail)
				return
			}
			j.sh.Cell("nan-propagated")
		} else {
			j.checkPayload(mk, r, fmt.Sprintf("%s(%s, %s)", op.name, payloadClassName(xn), payloadClassName(yn)), detail)
		}
	}
}

func (j *specJudge) judgeQuoRem(x, y ref.Bits, cx, cy *opClass, mode int) {
	xn, yn := ref.Decode(x), ref.Decode(y)
	dx, dy := toD(x), toD(y)
	mk := func() *mon.Case {
		c := j.ctx.NewCase(j.sh, "QuoRemWithMode")
		c.X = []string{x.Hex(), y.Hex()}
		c.Mode = mode
		c.S = []string{cx.name, cy.name}
		return c
	}
	var q, r D
	pv, pan := try(func() { q, r = dx.QuoRemWithMode(dy, decimal128.RoundingMode(mode)) })
	special := isSpecialOrZero(xn) || isSpecialOrZero(yn)
	j.sh.Eval(hash2("QuoRemWithMode", x.Hi, x.Lo, y.Hi, y.Lo, uint64(mode)), special)
	detail := fmt.Sprintf("QuoRem(%s=%v, %s=%v) mode=%d", cx.name, xn, cy.name, yn, mode)
	if pan {
		j.sh.Violate(mk(), "panic", "no panic", fmt.Sprint(pv), detail)
		return
	}
	gq, gr := num(q), num(r)
	j.sh.Cell(fmt.Sprintf("bin/QuoRem/%s/%s", cx.name, cy.name))
	anyNaN := xn.Class == ref.NaN || yn.Class == ref.NaN
	switch {
	case anyNaN:
		qb, rb := toB(q), toB(r)
		okq := (xn.Class == ref.NaN && qb == x) || (yn.Class == ref.NaN && qb == y)
		okr := (xn.Class == ref.NaN && rb == x) || (yn.Class == ref.NaN && rb == y)
		if !okq || !okr {
			j.sh.Violate(mk(), "nan-propagation", "both results bit-identical to a NaN operand", fmt.Sprintf("q=%v r=%v", gq, gr), detail)
		}
		j.sh.Cell("nan-propagated")
	case xn.Class == ref.Inf || yn.IsZero():
		// invalid: remainder NaN with cause; quotient Inf (xor sign) or NaN for Inf/Inf and 0/0
		if gr.Class != ref.NaN {
			j.sh.Violate(mk(), "class", "remainder NaN", gr.String(), detail)
			return
		}
		j.checkPayload(mk, r, fmt.Sprintf("QuoRem(%s, %s)", payloadClassName(xn), payloadClassName(yn)), detail)
		bothBad := (xn.Class == ref.Inf && yn.Class == ref.Inf) || (xn.IsZero() && yn.IsZero())
		if bothBad {
			if gq.Class != ref.NaN {
				j.sh.Violate(mk(), "class", "quotient NaN", gq.String(), detail)
			}
		} else if gq.Class != ref.Inf || gq.Neg != (xn.Neg != yn.Neg) {
			j.sh.Violate(mk(), "class", "quotient Inf with xor sign", gq.String(), detail)
		}
	default:
		if gq.Class == ref.NaN || gr.Class == ref.NaN {
			j.sh.Violate(mk(), "nan-from-finite", "not NaN", fmt.Sprintf("q=%v r=%v", gq, gr), detail)
		}
	}
}

func (j *specJudge) judgeUnary(oi int, x ref.Bits, cx *opClass) {
	op := unOps[oi]
	xn := ref.Decode(x)
	dx := toD(x)
	mk := func() *mon.Case {
		c := j.ctx.NewCase(j.sh, op.name)
		c.X = []string{x.Hex()}
		c.S = []string{cx.name}
		return c
	}
	var r D
	pv, pan := try(func() { r = op.f(dx) })
	want := floatClass(op.g(cx.rep))
	special := isSpecialOrZero(xn)
	invalid := want == "nan" && xn.Class != ref.NaN
	j.sh.Eval(hash2(op.name, x.Hi, x.Lo), special || invalid)
	detail := fmt.Sprintf("%s(%s=%v) float64 model: %v", op.name, cx.name, xn, op.g(cx.rep))
	if pan {
		j.sh.Violate(mk(), "panic", "no panic", fmt.Sprint(pv), detail)
		return
	}
	got := num(r)
	gc := numClass(got)
	j.sh.Cell(fmt.Sprintf("un/%s/%s", op.name, cx.name))
	if !special && !invalid {
		if got.Class == ref.NaN {
			j.sh.Violate(mk(), "nan-from-finite", "not NaN", got.String(), detail)
		}
		return
	}
	if gc != want {
		kind := "class"
		if len(gc) > 1 && len(want) > 1 && gc[1:] == want[1:] {
			kind = "sign"
		}
		j.sh.Violate(mk(), kind, want, gc+" ("+got.String()+")", detail)
		return
	}
	if got.Class == ref.NaN {
		if xn.Class == ref.NaN {
			if op.name != "Abs" && op.name != "Neg" && toB(r) != x {
				j.sh.Violate(mk(), "nan-propagation", "bit-identical to the NaN operand", toB(r).Hex(), detail)
				return
			}
			j.sh.Cell("nan-propagated")
		} else {
			j.checkPayload(mk, r, fmt.Sprintf("%s(%s)", op.name, payloadClassName(xn)), detail)
		}
	}
}

// judgeRoundingMethods: Round/Ceil/Floor(dp) on special operands.
func (j *specJudge) judgeRoundingMethods(x ref.Bits, cx *opClass, dp int, mode int) {
	xn := ref.Decode(x)
	if !isSpecialOrZero(xn) {
		return
	}
	dx := toD(x)
	for k, name := range []string{"Round", "Ceil", "Floor"} {
		var r D
		pv, pan := try(func() {
			switch k {
			case 0:
				r = dx.Round(dp, decimal128.RoundingMode(mode))
			case 1:
				r = dx.Ceil(dp)
			default:
				r = dx.Floor(dp)
			}
		})
		mk := func() *mon.Case {
			c := j.ctx.NewCase(j.sh, "method-"+name)
			c.X = []string{x.Hex()}
			c.N = []int64{int64(dp)}
			c.Mode = mode
			c.S = []string{cx.name}
			return c
		}
		j.sh.Eval(hash2("method-"+name, x.Hi, x.Lo, uint64(dp), uint64(mode)), true)
		if pan {
			j.sh.Violate(mk(), "panic", "no panic", fmt.Sprint(pv), "")
			continue
		}
		got := num(r)
		if xn.Class != ref.Finite {
			if toB(r) != x {
				j.sh.Violate(mk(), "nan-propagation", "NaN/Inf returned unchanged", got.String(), "x="+xn.String())
			}
		} else if !got.IsZero() || got.Neg != xn.Neg {
			j.sh.Violate(mk(), "sign", fmt.Sprintf("zero neg=%v", xn.Neg), got.String(), "x="+xn.String())
		}
		j.sh.Cell("method/" + name + "/" + cx.name)
	}
}

// judgeScaling checks Ldexp and Frexp on special and zero operands: as for
// math.Ldexp / math.Frexp, a zero stays a zero of the same sign, an infinity
// stays that infinity and a NaN is propagated, whatever the integer argument.
func (j *specJudge) judgeScaling(x ref.Bits, cx *opClass, e int) {
	xn := ref.Decode(x)
	if !isSpecialOrZero(xn) {
		return
	}
	dx := toD(x)
	for k, name := range []string{"Ldexp", "Frexp"} {
		var r D
		pv, pan := try(func() {
			if k == 0 {
				r = decimal128.Ldexp(dx, e)
			} else {
				r, _ = decimal128.Frexp(dx)
			}
		})
		mk := func() *mon.Case {
			c := j.ctx.NewCase(j.sh, "scale-"+name)
			c.X = []string{x.Hex()}
			c.N = []int64{int64(e)}
			c.S = []string{cx.name}
			return c
		}
		j.sh.Eval(hash2("scale-"+name, x.Hi, x.Lo, uint64(e)), true)
		if pan {
			j.sh.Violate(mk(), "panic", "no panic", fmt.Sprint(pv), "")
			continue
		}
		got := num(r)
		switch {
		case xn.Class == ref.NaN:
			if got.Class != ref.NaN {
				j.sh.Violate(mk(), "class", "NaN", got.String(), "x="+xn.String())
			}
		case xn.Class == ref.Inf:
			if got.Class != ref.Inf || got.Neg != xn.Neg {
				j.sh.Violate(mk(), "class", "the infinity itself", got.String(), "x="+xn.String())
			}
		default:
			if !got.IsZero() || got.Neg != xn.Neg {
				j.sh.Violate(mk(), "class", fmt.Sprintf("zero neg=%v", xn.Neg), got.String(), fmt.Sprintf("x=%v e=%d", xn, e))
			}
		}
		j.sh.Cell("method/" + name + "/" + cx.name)
	}
}

// judgeClassify checks the predicates on an arbitrary bit pattern.
func (j *specJudge) judgeClassify(x ref.Bits) {
	n := ref.Decode(x)
	d := toD(x)
	mk := func() *mon.Case {
		c := j.ctx.NewCase(j.sh, "classify")
		c.X = []string{x.Hex()}
		return c
	}
	var isNaN, isInf0, isInfP, isInfN, isZero, sb bool
	pv, pan := try(func() {
		isNaN, isInf0, isInfP, isInfN, isZero, sb = d.IsNaN(), d.IsInf(0), d.IsInf(1), d.IsInf(-1), d.IsZero(), d.Signbit()
	})
	j.sh.Eval(hash2("classify", x.Hi, x.Lo), n.Class != ref.Finite || n.IsZero())
	if pan {
		j.sh.Violate(mk(), "panic", "no panic", fmt.Sprint(pv), "")
		return
	}
	wNaN, wInf, wZero := n.Class == ref.NaN, n.Class == ref.Inf, n.IsZero()
	ok := isNaN == wNaN && isInf0 == wInf && isZero == wZero && sb == n.Neg &&
		isInfP == (wInf && !n.Neg) && isInfN == (wInf && n.Neg)
	count := 0
	for _, b := range []bool{isNaN, isInf0, isZero} {
		if b {
			count++
		}
	}
	if !ok || count > 1 {
		j.sh.Violate(mk(), "classification", fmt.Sprintf("NaN=%v Inf=%v Zero=%v Signbit=%v", wNaN, wInf, wZero, n.Neg),
			fmt.Sprintf("IsNaN=%v IsInf(0)=%v IsInf(1)=%v IsInf(-1)=%v IsZero=%v Signbit=%v", isNaN, isInf0, isInfP, isInfN, isZero, sb), n.String())
		return
	}
	// Payload panics exactly on non-NaN; Sign panics exactly on NaN
	_, panP := try(func() { _ = d.Payload() })
	_, panS := try(func() { _ = d.Sign() })
	if panP == wNaN || panS != wNaN {
		j.sh.Violate(mk(), "documented-panic", "Payload panics iff not NaN, Sign panics iff NaN", fmt.Sprintf("Payload panicked=%v Sign panicked=%v", panP, panS), n.String())
		return
	}
	j.sh.Cell("classify/" + n.Class.String())
}

func runC15(c *Ctx) {
	classes := opClasses()
	c.Parallel("classes", ref.NearestEven, func(sh *mon.Shard, r *gen.RNG) {
		j := &specJudge{ctx: c, sh: sh}
		reps := c.N(200, 300)
		idx := 0
		for rep := 0; rep < reps; rep++ {
			for a := range classes {
				for b := range classes {
					idx++
					if idx%c.Shards != sh.ID {
						continue
					}
					for oi := range binOps {
						for m := -1; m < 6; m++ {
							j.judgeBinary(oi, classes[a].gen(r), classes[b].gen(r), &classes[a], &classes[b], m, false)
						}
					}
					for m := 0; m < 6; m++ {
						j.judgeQuoRem(classes[a].gen(r), classes[b].gen(r), &classes[a], &classes[b], m)
					}
				}
				if (rep*len(classes)+a)%c.Shards == sh.ID {
					for oi := range unOps {
						for k := 0; k < 32; k++ {
							j.judgeUnary(oi, classes[a].gen(r), &classes[a])
						}
					}
					for _, dp := range []int{-3, 0, 3} {
						for m := 0; m < 6; m++ {
							j.judgeRoundingMethods(classes[a].gen(r), &classes[a], dp, m)
						}
					}
					for k := 0; k < 6; k++ {
						e := hostileInts[r.Intn(len(hostileInts))]
						if r.Bool() {
							e = r.Pick(12322, 12323, 12324, -12323, -12324, 20000, -20000, r.Range(-13000, 13000))
						}
						j.judgeScaling(classes[a].gen(r), &classes[a], e)
					}
				}
			}
		}
		n := c.N(100000, 1000000)
		for i := 0; i < n; i++ {
			j.judgeClassify(r.AnyBits())
			if i%4 == 0 {
				j.judgeClassify(ref.Bits{Hi: r.U64(), Lo: r.U64()})
			}
		}
	})
	nb := len(classes) * len(classes)
	c.Col.Res.Targets = append(c.Col.Res.Targets,
		mon.Target{Prefix: "bin/", Total: nb * 6, Min: nb * 6},
		mon.Target{Prefix: "un/", Total: len(classes) * len(unOps), Min: len(classes) * len(unOps)},
		mon.Target{Prefix: "method/", Total: 25, Min: 25},
		mon.Target{Prefix: "classify/", Total: 3, Min: 3},
	)
}

func replayC15(c *Ctx, sh *mon.Shard, cs *mon.Case) {
	j := &specJudge{ctx: c, sh: sh}
	classes := opClasses()
	find := func(name string) *opClass {
		for i := range classes {
			if classes[i].name == name {
				return &classes[i]
			}
		}
		return &classes[0]
	}
	x, _ := ref.ParseHex(cs.X[0])
	switch {
	case cs.Op == "classify":
		j.judgeClassify(x)
	case cs.Op == "QuoRemWithMode":
		y, _ := ref.ParseHex(cs.X[1])
		j.judgeQuoRem(x, y, find(cs.S[0]), find(cs.S[1]), cs.Mode)
	case len(cs.X) == 2:
		y, _ := ref.ParseHex(cs.X[1])
		for oi := range binOps {
			if binOps[oi].name == cs.Op || binOps[oi].name+"WithMode" == cs.Op {
				j.judgeBinary(oi, x, y, find(cs.S[0]), find(cs.S[1]), cs.Mode, true)
			}
		}
	case len(cs.Op) > 7 && cs.Op[:7] == "method-":
		j.judgeRoundingMethods(x, find(cs.S[0]), int(cs.N[0]), cs.Mode)
	default:
		for oi := range unOps {
			if unOps[oi].name == cs.Op {
				j.judgeUnary(oi, x, find(cs.S[0]))
			}
		}
	}
}
