package props

import (
	"fmt"
	"math/big"

	"verifharness/gen"
	"verifharness/mon"
	"verifharness/ref"
)

func init() {
	register(&Prop{
		ID: "C18",
		Rule: "pairs (x,y): y in {0, +/-1 in all cohorts, small/large integers with the parity digit at every position and trailing zeros / positive exponent, half-integers, +/-0.5 cohorts, general}; x in {powers of ten in all cohorts with even/odd exponent, " +
			"1 +/- 10^-j, negative bases, general}; products y*log10|x| aimed at the thresholds +/-6145 / -6176. Each pair judged for PowWithMode in 6 modes and Pow under the current default (6 phases). " +
			"Oracle: the statement's shortcut ladder decided exactly, otherwise exp(y ln|x|) at 1100 bits with the stated tolerance u + |t||y|(4e-37|ln|x|| + 1e-55). " +
			"non-trivial = finite non-zero x and y outside the y in {0,1} shortcuts; distinct = distinct (x,y,mode).",
		Run:    runC18,
		Replay: replayC18,
		Assume: []string{"big.Float reference (harness/ref/trans.go) accurate to 2^-900 relative"},
		Cover:  []string{"Decimal.PowWithMode", "Decimal.Pow", "decomposed192.log", "decomposed192.epow", "decomposed192.rcp"},
	})
}

type powJudge struct {
	ctx *Ctx
	sh  *mon.Shard
}

// stripped returns coefficient without trailing zeros and the adjusted exponent.
func stripped(n ref.Num) (*big.Int, int) {
	c := new(big.Int).Set(n.Coef)
	e := n.Exp
	if c.Sign() == 0 {
		return c, 0
	}
	q, m := new(big.Int), new(big.Int)
	for {
		q.QuoRem(c, ref.Ten, m)
		if m.Sign() != 0 {
			break
		}
		c.Set(q)
		e++
	}
	return c, e
}

type powClass struct {
	yInt    bool
	yOdd    bool
	yIntVal *big.Int // |y| when integer and below 1e40
	yHalf   bool     // |y| == 0.5
	xPow10  bool
	xPow10E int
}

func classifyPow(xn, yn ref.Num) powClass {
	var pc powClass
	yc, ye := stripped(yn)
	if ye >= 0 {
		pc.yInt = true
		pc.yOdd = ye == 0 && yc.Bit(0) == 1
		if ye <= 40 {
			pc.yIntVal = new(big.Int).Mul(yc, ref.Pow10(ye))
		}
	}
	if ye == -1 && yc.Cmp(big.NewInt(5)) == 0 {
		pc.yHalf = true
	}
	xc, xe := stripped(xn)
	if xc.Cmp(ref.One) == 0 {
		pc.xPow10 = true
		pc.xPow10E = xe
	}
	return pc
}

func (j *powJudge) judgePair(x, y ref.Bits, only string, onlyMode int) {
	xn, yn := ref.Decode(x), ref.Decode(y)
	dx, dy := toD(x), toD(y)
	def := ref.Mode(currentDefault())
	// the general-path reference is shared between modes
	var pc powClass
	finiteBoth := xn.Class == ref.Finite && yn.Class == ref.Finite
	if finiteBoth {
		pc = classifyPow(xn, yn)
	}
	var tRef *big.Float
	var tHuge, tTiny bool
	var lnAbs *big.Float
	refReady := false
	prepRef := func() {
		if refReady {
			return
		}
		refReady = true
		ax := xn
		ax.Neg = false
		lnAbs = ref.Log(ref.FloatOf(ax))
		p := new(big.Float).SetPrec(ref.TransPrec).Mul(lnAbs, ref.FloatOf(yn))
		lim := big.NewFloat(60000)
		switch {
		case p.Cmp(lim) > 0:
			tHuge = true
		case p.Cmp(new(big.Float).Neg(lim)) < 0:
			tTiny = true
		default:
			tRef = ref.Exp(p)
		}
	}
	judge := func(op string, m ref.Mode, explicit bool) {
		if only != "" && (only != op || (explicit && onlyMode != int(m))) {
			return
		}
		var r D
		pv, pan := try(func() {
			if explicit {
				r = dx.PowWithMode(dy, rm(m))
			} else {
				r = dx.Pow(dy)
			}
		})
		mk := func() *mon.Case {
			c := j.ctx.NewCase(j.sh, op)
			c.X = []string{x.Hex(), y.Hex()}
			if explicit {
				c.Mode = int(m)
			}
			return c
		}
		nontriv := finiteBoth && !xn.IsZero() && !yn.IsZero() && !(pc.yIntVal != nil && pc.yIntVal.Cmp(ref.One) == 0)
		mv := uint64(99)
		if explicit {
			mv = uint64(m)
		}
		j.sh.Eval(hash2(op, x.Hi, x.Lo, y.Hi, y.Lo, mv), nontriv)
		detail := fmt.Sprintf("Pow(%v, %v) mode=%v", xn, yn, m)
		if pan {
			j.sh.Violate(mk(), "panic", "no panic", fmt.Sprint(pv), detail)
			return
		}
		g := num(r)
		bad := func(kind, want string) { j.sh.Violate(mk(), kind, want, g.String(), detail) }
		// 1. y = +/-0: exactly +1 for any x, NaN included
		if yn.IsZero() {
			if g.Class != ref.Finite || g.Neg || !ref.SameValue(g.Coef, g.Exp, ref.One, 0) {
				bad("shortcut", "+1 (y is zero)")
			}
			j.sh.Cell("shortcut/y=0")
			return
		}
		if !finiteBoth || xn.IsZero() {
			return // special operands: C15
		}
		one := pc.yIntVal != nil && pc.yIntVal.Cmp(ref.One) == 0
		// 2. y = 1: value and sign of x
		if one && !yn.Neg {
			if g.Class != ref.Finite || g.Neg != xn.Neg || !ref.SameValue(g.Coef, g.Exp, xn.Coef, xn.Exp) {
				bad("shortcut", "x itself (y is one)")
			}
			j.sh.Cell("shortcut/y=1")
			return
		}
		// 3. y = -1: the m-rounded reciprocal
		if one && yn.Neg {
			w := ref.Prepare(xn.Neg, ref.Pow10(max0(-xn.Exp)), new(big.Int).Mul(xn.Coef, ref.Pow10(max0(xn.Exp)))).Round(m, true)
			w2 := ref.Prepare(xn.Neg, ref.Pow10(max0(-xn.Exp)), new(big.Int).Mul(xn.Coef, ref.Pow10(max0(xn.Exp)))).Round(m, false)
			if !w.Matches(g) && !w2.Matches(g) {
				bad("shortcut", w.String()+" (correctly rounded reciprocal)")
			}
			j.sh.Cell("shortcut/y=-1")
			return
		}
		// negative base
		resNeg := false
		if xn.Neg {
			if !pc.yInt {
				if g.Class != ref.NaN {
					bad("class", "NaN (negative base, non-integer exponent)")
				} else {
					want := "Pow(-Finite, Finite)"
					if yn.Neg {
						want = "Pow(-Finite, -Finite)"
					}
					var text string
					_, pp := try(func() { text = r.Payload().String() })
					if pp || text != want {
						j.sh.Violate(mk(), "payload", want, text, detail)
					}
				}
				j.sh.Cell("negative-base/non-integer-nan")
				return
			}
			resNeg = pc.yOdd
			j.sh.Cell(fmt.Sprintf("negative-base/integer-odd=%v", pc.yOdd))
		}
		if g.Class == ref.NaN {
			bad("nan-from-finite", "a number")
			return
		}
		// 4. power of ten base with a non-negative integer exponent: exact power of ten
		if pc.xPow10 && pc.yInt && !yn.Neg {
			var k *big.Int
			if pc.yIntVal != nil {
				k = new(big.Int).Mul(pc.yIntVal, big.NewInt(int64(pc.xPow10E)))
			}
			switch {
			case pc.xPow10E == 0:
				if g.Class != ref.Finite || g.Neg != resNeg || !ref.SameValue(g.Coef, g.Exp, ref.One, 0) {
					bad("shortcut", "1 (base is +/-1)")
				}
			case k == nil || !k.IsInt64() || k.Int64() > 7000 || k.Int64() < -7000:
				// far beyond the range
				over := pc.xPow10E > 0
				if over && !(g.Class == ref.Inf && g.Neg == resNeg) {
					bad("shortcut", "Inf (power of ten beyond the range)")
				} else if !over && !(g.IsZero() && g.Neg == resNeg) {
					// directed modes may round the tiny value away from zero
					w := ref.PrepareScaled(resNeg, ref.One, -100000).Round(m, false)
					if !w.Matches(g) {
						bad("shortcut", "zero (power of ten below the range)")
					}
				}
			default:
				e := int(k.Int64())
				ex := ref.PrepareScaled(resNeg, ref.One, e)
				w1, w2 := ex.Round(m, false), ex.Round(m, true)
				if !w1.Matches(g) && !w2.Matches(g) {
					bad("shortcut", fmt.Sprintf("exactly 1e%d (%s)", e, w1.String()))
				}
			}
			j.sh.Cell("shortcut/pow10-integer")
			return
		}
		// 5. y = +/-0.5 with x an even power of ten
		if pc.yHalf && pc.xPow10 && !xn.Neg && pc.xPow10E%2 == 0 {
			e := pc.xPow10E / 2
			if yn.Neg {
				e = -e
			}
			if g.Class != ref.Finite || g.Neg || !ref.SameValue(g.Coef, g.Exp, ref.One, e) {
				bad("shortcut", fmt.Sprintf("exactly 1e%d (square root of an even power of ten)", e))
			}
			j.sh.Cell("shortcut/sqrt-pow10")
			return
		}
		// 6. general: exp(y ln|x|)
		prepRef()
		if g.Class != ref.Inf && !g.IsZero() && g.Neg != resNeg {
			bad("sign", fmt.Sprintf("negative=%v", resNeg))
			return
		}
		switch {
		case tHuge:
			if !(g.Class == ref.Inf && g.Neg == resNeg) {
				bad("range", "Inf (exact power far beyond the largest Decimal)")
			}
			j.sh.Cell("general/overflow-far")
			return
		case tTiny:
			ok := g.IsZero()
			if !ok {
				w := ref.PrepareScaled(resNeg, ref.One, -100000).Round(m, false)
				ok = w.Matches(g)
			}
			if !ok {
				bad("range", "zero (exact power far below the smallest Decimal)")
			}
			j.sh.Cell("general/underflow-far")
			return
		}
		t := tRef
		// tolerance: u + |t| |y| (4e-37 |ln|x|| + 1e-55)
		E := spacingExp(t)
		uE := E
		if uE > ref.MaxExp {
			uE = ref.MaxExp
		}
		u := pow10F(uE)
		ay := new(big.Float).SetPrec(ref.TransPrec).Abs(ref.FloatOf(yn))
		al := new(big.Float).SetPrec(ref.TransPrec).Abs(lnAbs)
		rel := new(big.Float).SetPrec(ref.TransPrec).Mul(al, new(big.Float).SetPrec(ref.TransPrec).Quo(big.NewFloat(4), new(big.Float).SetInt(ref.Pow10(37))))
		rel.Add(rel, pow10F(-55))
		rel.Mul(rel, ay)
		tol := new(big.Float).SetPrec(ref.TransPrec).Mul(t, rel)
		tol.Add(tol, u)
		maxF := new(big.Float).SetPrec(ref.TransPrec).Mul(new(big.Float).SetInt(ref.Cmax), pow10F(ref.MaxExp))
		if g.Class == ref.Inf {
			// acceptable only if the tolerance interval reaches beyond the largest finite Decimal
			top := new(big.Float).SetPrec(ref.TransPrec).Add(t, tol)
			if g.Neg != resNeg {
				bad("sign", fmt.Sprintf("an infinity (or finite result) with sign negative=%v: (-1)^y for a negative base", resNeg))
				return
			}
			if top.Cmp(maxF) <= 0 {
				bad("range", "a finite result near "+t.Text('g', 40))
				return
			}
			j.sh.Cell("general/overflow-edge")
			return
		}
		var gf *big.Float
		if g.IsZero() {
			gf = new(big.Float).SetPrec(ref.TransPrec)
		} else {
			ag := g
			ag.Neg = false
			gf = ref.FloatOf(ag)
		}
		diff := new(big.Float).SetPrec(ref.TransPrec).Sub(gf, t)
		diff.Abs(diff)
		if diff.Cmp(tol) > 0 {
			ratio, _ := new(big.Float).Quo(diff, tol).Float64()
			excF := new(big.Float).SetPrec(ref.TransPrec).Sub(diff, tol)
			exc, _ := excF.Quo(excF, tol).Float64() // (error - allowance) / allowance, kept small values exactly
			want := fmt.Sprintf("within u + |t||y|(4e-37|ln|x||+1e-55) of %s", t.Text('g', 45))
			j.sh.ViolateM(mk(), "accuracy", want, fmt.Sprintf("%v (error/allowance = %.6g, excess = %.3g of the allowance)", g, ratio, exc), detail, exc)
			return
		}
		ratio, _ := new(big.Float).Quo(diff, tol).Float64()
		b := int(ratio * 10)
		if b > 9 {
			b = 9
		}
		j.sh.Cell(fmt.Sprintf("general/ratio/%d", b))
		if m == ref.NearestEven {
			j.sh.TrackMax("worst_error_over_allowance", ratio, mk())
		}
		if g.IsZero() {
			j.sh.Cell("general/underflow-edge")
		} else if E <= ref.MinExp+1 {
			j.sh.Cell("general/subnormal-result")
		} else if E >= ref.MaxExp-1 {
			j.sh.Cell("general/near-overflow")
		}
		switch {
		case pc.yInt:
			j.sh.Cell("yclass/integer")
		case pc.yHalf:
			j.sh.Cell("yclass/half")
		default:
			j.sh.Cell("yclass/general")
		}
	}
	for m := ref.Mode(0); m < ref.NumModes; m++ {
		judge("PowWithMode", m, true)
	}
	judge("Pow", def, false)
	// Pow equals PowWithMode under the default mode (bit for bit)
	if only == "" {
		var a, b D
		_, pan := try(func() { a, b = dx.Pow(dy), dx.PowWithMode(dy, rm(def)) })
		if !pan && toB(a) != toB(b) {
			c := j.ctx.NewCase(j.sh, "Pow")
			c.X = []string{x.Hex(), y.Hex()}
			j.sh.Violate(c, "pow-vs-withmode", "Pow bit-equal to PowWithMode(DefaultRoundingMode)", fmt.Sprintf("%v vs %v", num(a), num(b)), "")
		}
	}
	if j.sh.Evals%30000 < 7 {
		c := j.ctx.NewCase(j.sh, "PowWithMode")
		c.X = []string{x.Hex(), y.Hex()}
		c.Mode = 0
		j.sh.Sample(c)
	}
}

func max0(a int) int {
	if a < 0 {
		return 0
	}
	return a
}

func genPowY(r *gen.RNG) ref.Bits {
	neg := r.Bool()
	switch r.Intn(12) {
	case 0:
		return ref.Encode(neg, new(big.Int), r.Exp())
	case 1: // +/-1 in all cohorts
		j := r.Intn(35)
		if j > 34 {
			j = 34
		}
		return ref.Encode(neg, ref.Pow10(j), -j)
	case 2: // small integers
		return cohortVariant(r, ref.Encode(neg, big.NewInt(int64(r.Range(2, 200))), 0))
	case 3: // large integers, parity digit at every position
		nd := r.Range(1, 34)
		c := r.Digits(nd)
		tz := r.Intn(35 - nd)
		c.Mul(c, ref.Pow10(tz))
		// exponent chosen so that the value is an integer whose unit digit is c's last digit or a zero
		e := -tz + r.Pick(0, 0, 0, 1, 2, 5)
		return decOf(neg, c, e)
	case 4: // half-integers
		c := big.NewInt(int64(r.Range(0, 400))*10 + 5)
		return cohortVariant(r, ref.Encode(neg, c, -1))
	case 5: // +/-0.5 cohorts
		j := r.Intn(30)
		return ref.Encode(neg, new(big.Int).Mul(big.NewInt(5), ref.Pow10(j)), -1-j)
	case 6: // integers with positive exponent
		return ref.Encode(neg, big.NewInt(int64(r.Range(1, 999))), r.Range(1, 12))
	case 7: // tiny exponents
		return magnitudeArg(r, neg, r.Range(-60, -1))
	case 8: // huge exponents
		return magnitudeArg(r, neg, r.Range(5, 40))
	}
	return magnitudeArg(r, neg, r.Range(-3, 3))
}

func genPowX(r *gen.RNG) ref.Bits {
	neg := r.Chance(1, 4)
	switch r.Intn(10) {
	case 0, 1: // powers of ten in all cohorts
		a := r.Range(-6176, 6144)
		if r.Bool() {
			a = r.Range(-40, 40)
		}
		b := ref.Encode(neg, big.NewInt(1), gen.ClampExp(a))
		if a > ref.MaxExp {
			b = ref.Encode(neg, ref.Pow10(a-ref.MaxExp), ref.MaxExp)
		}
		return cohortVariant(r, b)
	case 2, 3: // near 1
		jj := r.Range(1, 34)
		c := new(big.Int).Set(ref.Pow10(jj))
		k := int64(r.Pick(1, 2, 5, r.Range(1, 9999)))
		if r.Bool() {
			c.Add(c, big.NewInt(k))
		} else {
			c.Sub(c, big.NewInt(k))
		}
		if c.Sign() <= 0 {
			c = big.NewInt(9)
			jj = 1
		}
		return decOf(neg, c, -jj)
	case 4: // small integers
		return cohortVariant(r, ref.Encode(neg, big.NewInt(int64(r.Range(2, 99))), 0))
	case 5: // range ends
		c, _ := r.Coef()
		if c.Sign() == 0 {
			c = big.NewInt(3)
		}
		return ref.Encode(neg, c, r.Pick(ref.MinExp, ref.MaxExp, ref.MinExp+40, ref.MaxExp-40))
	case 6:
		return magnitudeArg(r, neg, r.Range(-6176, 6144))
	}
	return magnitudeArg(r, neg, r.Range(-6, 6))
}

// thresholdPair aims y*log10|x| at the overflow / underflow thresholds.
func thresholdPair(r *gen.RNG) (ref.Bits, ref.Bits) {
	x := magnitudeArg(r, false, r.Range(-30, 30))
	xn := ref.Decode(x)
	lx := ref.Log(ref.FloatOf(xn))
	l10 := new(big.Float).SetPrec(ref.TransPrec).Quo(lx, ref.Ln10())
	f, _ := l10.Float64()
	if f == 0 || f != f {
		return x, ref.Encode(false, big.NewInt(2), 0)
	}
	target := float64(r.Pick(6145, 6144, 6146, -6176, -6177, -6175, 6111, -6143)) + float64(r.Range(-100, 100))/100
	yv := new(big.Float).SetPrec(ref.TransPrec).Quo(big.NewFloat(target), l10)
	// to 34 digits
	rt, _ := new(big.Float).SetPrec(ref.TransPrec).Abs(yv).Rat(nil)
	if rt == nil || rt.Sign() == 0 {
		return x, ref.Encode(false, big.NewInt(2), 0)
	}
	w := ref.Prepare(yv.Sign() < 0, rt.Num(), rt.Denom()).Round(ref.NearestEven, false)
	if w.Inf || w.IsZero() {
		return x, ref.Encode(false, big.NewInt(2), 0)
	}
	return x, ref.Encode(w.Neg, w.Coef, w.Exp)
}

// thresholdPairInt is thresholdPair with an integer exponent (either parity)
// and a base of either sign: the sign rule (-1)^y and the Inf/zero decisions
// meet at the range ends.
func thresholdPairInt(r *gen.RNG) (ref.Bits, ref.Bits) {
	neg := r.Chance(2, 3)
	var x ref.Bits
	if r.Bool() {
		x = ref.Encode(neg, big.NewInt(int64(r.Pick(2, 2, 3, 5, 7, 11, 20, 25, 99))), r.Pick(0, 0, -1, -2, 1))
	} else {
		x = magnitudeArg(r, neg, r.Range(-3, 3))
	}
	xn := ref.Decode(x)
	if xn.IsZero() {
		return x, ref.Encode(false, big.NewInt(2), 0)
	}
	xa := xn
	xa.Neg = false
	l10 := new(big.Float).SetPrec(ref.TransPrec).Quo(ref.Log(ref.FloatOf(xa)), ref.Ln10())
	f, _ := l10.Float64()
	if f == 0 || f != f {
		return x, ref.Encode(false, big.NewInt(2), 0)
	}
	target := float64(r.Pick(6145, 6145, 6144, 6146, 6150, 6200, 6227, 6230, -6176, -6177, -6175, -6180, -6210, -6240, 6111, -6143)) + float64(r.Range(-100, 100))/100
	yf, _ := new(big.Float).SetPrec(ref.TransPrec).Quo(big.NewFloat(target), l10).Float64()
	if yf != yf || yf > 1e18 || yf < -1e18 {
		return x, ref.Encode(false, big.NewInt(2), 0)
	}
	n := int64(yf)
	if yf < 0 {
		n--
	}
	n += int64(r.Pick(0, 1, 2, -1))
	yb := ref.Encode(n < 0, new(big.Int).Abs(big.NewInt(n)), 0)
	if r.Chance(1, 3) {
		if alt, ok := r.CohortMember(ref.Decode(yb)); ok {
			yb = alt
		}
	}
	return x, yb
}

func runC18(c *Ctx) {
	for def := ref.Mode(0); def < ref.NumModes; def++ {
		c.Parallel("pairs", def, func(sh *mon.Shard, r *gen.RNG) {
			j := &powJudge{ctx: c, sh: sh}
			n := c.N(1500, 12000)
			if def != ref.NearestEven {
				n /= 3
			}
			for i := 0; i < n; i++ {
				var x, y ref.Bits
				switch i % 8 {
				case 0:
					x, y = thresholdPair(r)
					if i%16 == 8 {
						x, y = thresholdPairInt(r)
						j.sh.Cell("gen/integer-exponent-at-range-end")
					}
					if i%16 == 0 {
						// power-of-ten base with an integer exponent aimed at the range ends:
						// a*y in 6100..6150 (largest representable power is 1e6144) or -6185..-6165
						a := r.Pick(1, 1, 2, 3, -1, -1, -2, 7, 10, -10)
						target := r.Range(6100, 6150)
						if r.Bool() {
							target = r.Range(-6185, -6165)
						}
						yv := target / a
						if yv < 0 {
							yv = -yv
							a = -a
						}
						if yv == 0 {
							yv = 1
						}
						x = cohortVariant(r, ref.Encode(r.Chance(1, 4), big.NewInt(1), a))
						y = cohortVariant(r, ref.Encode(false, big.NewInt(int64(yv)), 0))
					}
				case 1:
					x, y = r.AnyBits(), genPowY(r)
					if i%16 == 9 {
						// every entry of the power-of-ten shortcut's scale table: x = +/-10^n, y = c*10^k
						n := r.Pick(1, -1, 2, -2, 3, -3, 5, -6, 10, -40, 600, -600)
						k := r.Range(0, 10)
						cc := int64(r.Range(1, 9))
						x = cohortVariant(r, ref.Encode(r.Chance(1, 4), big.NewInt(1), n))
						y = ref.Encode(false, big.NewInt(cc), k)
						if r.Chance(1, 3) {
							// integer exponents whose coefficient needs more than one machine word while its low
							// word alone is a small number: m*2^64 + s (the exact power is far out of range)
							yc := new(big.Int).Lsh(big.NewInt(int64(r.Pick(1, 1, 2, 3, 1<<20, r.Range(1, 1<<30)))), uint(r.Pick(64, 64, 64, 65, 96, 108)))
							yc.Add(yc, big.NewInt(int64(r.Pick(0, 0, 1, 3, 7, 100, 6211, 6212, r.Range(0, 7000)))))
							kk := r.Intn(8)
							if yc.Cmp(ref.Cmax) > 0 {
								yc.Rsh(yc, 44)
							}
							y = ref.Encode(false, yc, kk)
							j.sh.Cell("gen/multiword-integer-exponent")
						}
						if r.Chance(1, 3) {
							if alt, ok := r.CohortMember(ref.Decode(y)); ok {
								y = alt
							}
						}
					}
				default:
					x, y = genPowX(r), genPowY(r)
				}
				j.judgePair(x, y, "", 0)
			}
		})
	}
	c.Col.Res.Targets = append(c.Col.Res.Targets,
		mon.Target{Prefix: "shortcut/", Total: 5, Min: 5},
		mon.Target{Prefix: "general/", Total: 16, Min: 8},
		mon.Target{Prefix: "negative-base/", Total: 3, Min: 3},
		mon.Target{Prefix: "yclass/", Total: 3, Min: 3},
	)
}

func replayC18(c *Ctx, sh *mon.Shard, cs *mon.Case) {
	x, _ := ref.ParseHex(cs.X[0])
	y, _ := ref.ParseHex(cs.X[1])
	j := &powJudge{ctx: c, sh: sh}
	j.judgePair(x, y, cs.Op, cs.Mode)
}
