// Package props wires workloads and oracles, one file per property. It is
// built as a test binary (see run_test.go) with -tags verif.
package props

import (
	"fmt"
	"math/big"
	"os"
	"runtime"
	"runtime/debug"
	"runtime/pprof"
	"sort"
	"strconv"
	"strings"
	"sync"
	"time"

	"github.com/woodsbury/decimal128"

	"verifharness/gen"
	"verifharness/mon"
	"verifharness/ref"
)

type D = decimal128.Decimal

// Prop describes one property's monitor.
type Prop struct {
	ID     string
	Rule   string                                    // how cases are generated and what counts as non-trivial
	Run    func(c *Ctx)                              // workload + oracle
	Replay func(c *Ctx, sh *mon.Shard, cs *mon.Case) // re-judge one recorded case
	Assume []string
	Cover  []string // anchored functions whose block coverage the runner reports
}

var registry = map[string]*Prop{}

func register(p *Prop) { registry[p.ID] = p }

// Ctx is the run context of one child process.
type Ctx struct {
	Prop   string
	Tier   string
	Seed   uint64
	Scale  float64
	Shards int
	Col    *mon.Collector
	Build  string

	panicMu     sync.Mutex
	shardPanics []string
	onStall     func(reason string)
}

func stallLimit() time.Duration {
	if s := os.Getenv("VERIF_STALL_S"); s != "" {
		if n, err := strconv.Atoi(s); err == nil && n > 0 {
			return time.Duration(n) * time.Second
		}
	}
	return 300 * time.Second
}

// N picks a per-shard case count by tier.
func (c *Ctx) N(quick, thorough int) int {
	n := quick
	if c.Tier == "thorough" {
		n = thorough
	}
	n = int(float64(n) * c.Scale)
	if n < 1 {
		n = 1
	}
	return n
}

func (c *Ctx) Thorough() bool { return c.Tier == "thorough" }

// Parallel runs fn on c.Shards goroutines, each with its own Shard and RNG
// stream derived from (seed, prop, phase, def, shard). DefaultRoundingMode is
// written here, before the goroutines start and after the previous ones have
// been joined, so no library call ever overlaps a write to it.
func (c *Ctx) Parallel(phase string, def ref.Mode, fn func(sh *mon.Shard, r *gen.RNG)) {
	decimal128.DefaultRoundingMode = decimal128.RoundingMode(def)
	var wg sync.WaitGroup
	shards := make([]*mon.Shard, c.Shards)
	for i := 0; i < c.Shards; i++ {
		sh := mon.NewShard(i, phase)
		shards[i] = sh
		r := gen.NewRNG(c.Seed, gen.HashString(c.Prop), gen.HashString(phase), uint64(def), uint64(i))
		wg.Add(1)
		go func() {
			defer wg.Done()
			defer sh.Done.Store(true)
			defer func() {
				// A panic here is inside the harness (library calls run under try): the shard's verdicts so far
				// are kept, the rest of its workload is lost and the run cannot be called "held".
				if pv := recover(); pv != nil {
					st := strings.Split(string(debug.Stack()), "\n")
					if len(st) > 14 {
						st = st[:14]
					}
					c.panicMu.Lock()
					c.shardPanics = append(c.shardPanics, fmt.Sprintf("phase %s shard %d: %v | %s", phase, sh.ID, pv, strings.Join(st, " | ")))
					c.panicMu.Unlock()
				}
			}()
			if sh.ID == 3 && os.Getenv("VERIF_INJECT_HARNESS_PANIC") == "1" {
				panic("injected harness panic (self-test of the runner)")
			}
			fn(sh, r)
		}()
	}
	// stall monitor: library calls take microseconds to milliseconds, so a shard whose evaluation counter does
	// not move for the stall limit is stuck inside one call. Termination is C20's verdict (its own per-call
	// watchdog is shorter); every other property ends the run without a verdict instead of waiting for the
	// runner's wall-clock watchdog.
	finished := make(chan struct{})
	go func() { wg.Wait(); close(finished) }()
	limit := stallLimit()
	last := make([]int64, len(shards))
	since := make([]time.Time, len(shards))
	for i := range since {
		since[i] = time.Now()
	}
	tick := time.NewTicker(2 * time.Second)
	defer tick.Stop()
wait:
	for {
		select {
		case <-finished:
			break wait
		case now := <-tick.C:
			for i, sh := range shards {
				if sh.Done.Load() {
					continue
				}
				if p := sh.Progress.Load(); p != last[i] {
					last[i], since[i] = p, now
				} else if now.Sub(since[i]) > limit && c.onStall != nil {
					// keep what the finished shards of this phase observed (the handler writes the result and exits):
					// violations seen before the stall still decide the run
					for _, dsh := range shards {
						if dsh.Done.Load() {
							c.Col.Merge(dsh)
						}
					}
					c.onStall(fmt.Sprintf("phase %s shard %d made no progress for %.0f s after %d evaluations (a library call does not return, or returns extremely slowly)", phase, i, now.Sub(since[i]).Seconds(), p))
				}
			}
		}
	}
	for _, sh := range shards {
		c.Col.Merge(sh)
	}
	decimal128.DefaultRoundingMode = decimal128.ToNearestEven
}

// NewCase starts a case record.
func (c *Ctx) NewCase(sh *mon.Shard, op string) *mon.Case {
	return &mon.Case{Prop: c.Prop, Op: op, Mode: -1, Def: int(decimal128.DefaultRoundingMode), Phase: sh.Phase, Shard: sh.ID, Index: sh.Next(), Seed: c.Seed}
}

// ---- channel between harness bits and library values ----

func toD(b ref.Bits) D                      { return decimal128.VerifFromBits(b.Hi, b.Lo) }
func toB(d D) ref.Bits                      { hi, lo := decimal128.VerifBits(d); return ref.Bits{Hi: hi, Lo: lo} }
func num(d D) ref.Num                       { return ref.Decode(toB(d)) }
func rm(m ref.Mode) decimal128.RoundingMode { return decimal128.RoundingMode(m) }

// try runs f and reports a panic instead of propagating it.
func try(f func()) (pv any, panicked bool) {
	defer func() {
		if r := recover(); r != nil {
			pv = r
			panicked = true
		}
	}()
	f()
	return nil, false
}

func hash2(op string, vals ...uint64) uint64 {
	h := gen.HashString(op)
	for _, v := range vals {
		h = (h ^ v) * 0x9e3779b97f4a7c15
		h ^= h >> 29
	}
	return h
}

func hashStr(op string, s string, vals ...uint64) uint64 {
	return hash2(op, append([]uint64{gen.HashString(s)}, vals...)...)
}

// selfTest checks the observation channel before anything is judged.
func selfTest() error {
	type tc struct {
		d    D
		want string
	}
	one := decimal128.New(1, 0)
	n := num(one)
	if n.Class != ref.Finite || n.Neg || n.Coef.Cmp(big.NewInt(1)) != 0 || n.Exp != 0 {
		return fmt.Errorf("hook channel: New(1,0) decodes as %v", n)
	}
	nz := decimal128.New(0, 0).Neg()
	n = num(nz)
	if !n.IsZero() || !n.Neg {
		return fmt.Errorf("hook channel: -0 decodes as %v", n)
	}
	pi := decimal128.Inf(1)
	n = num(pi)
	if n.Class != ref.Inf || n.Neg {
		return fmt.Errorf("hook channel: +Inf decodes as %v", n)
	}
	b := ref.Bits{Hi: 0x1234_5678_9abc_def0, Lo: 0x0fed_cba9_8765_4321}
	if toB(toD(b)) != b {
		return fmt.Errorf("hook channel: round trip failed")
	}
	// encoder/decoder agreement of the harness itself
	for _, s := range []string{"0", "1", "9999999999999999999999999999999999", "10384593717069655257060992658440192", "12980742146337069071326240823050239"} {
		c, _ := new(big.Int).SetString(s, 10)
		for _, e := range []int{ref.MinExp, -1, 0, 7, ref.MaxExp} {
			m := ref.Decode(ref.Encode(true, c, e))
			if m.Class != ref.Finite || !m.Neg || m.Coef.Cmp(c) != 0 || m.Exp != e {
				return fmt.Errorf("harness codec: %s e%d decodes as %v", s, e, m)
			}
		}
	}
	return nil
}

// Main is the entry point used by the test binary.
func Main() int {
	prop := os.Getenv("VERIF_PROP")
	tier := os.Getenv("VERIF_TIER")
	if tier == "" {
		tier = "quick"
	}
	out := os.Getenv("VERIF_OUT")
	seed, _ := strconv.ParseUint(os.Getenv("VERIF_SEED"), 10, 64)
	scale := 1.0
	if s := os.Getenv("VERIF_SCALE"); s != "" {
		if f, err := strconv.ParseFloat(s, 64); err == nil && f > 0 {
			scale = f
		}
	}
	shards := 16
	if s := os.Getenv("VERIF_SHARDS"); s != "" {
		if n, err := strconv.Atoi(s); err == nil && n > 0 {
			shards = n
		}
	}
	p, ok := registry[prop]
	if !ok {
		ids := []string{}
		for k := range registry {
			ids = append(ids, k)
		}
		sort.Strings(ids)
		fmt.Fprintf(os.Stderr, "unknown property %q (have %v)\n", prop, ids)
		return 4
	}
	col := mon.NewCollector(prop, tier, seed)
	col.Res.Build = os.Getenv("VERIF_BUILD")
	col.Res.Rule = p.Rule
	col.Res.Assumptions = p.Assume
	col.Res.CoverFuncs = p.Cover
	ctx := &Ctx{Prop: prop, Tier: tier, Seed: seed, Scale: scale, Shards: shards, Col: col, Build: col.Res.Build}
	ctx.onStall = func(reason string) {
		col.Res.Stalled = reason
		col.Res.Write(out)
		fmt.Fprintln(os.Stderr, "STALL:", reason)
		pprof.Lookup("goroutine").WriteTo(os.Stderr, 1)
		os.Exit(3)
	}
	if err := selfTest(); err != nil {
		col.Res.Internal = err.Error()
		col.Res.Write(out)
		fmt.Fprintln(os.Stderr, "INTERNAL:", err)
		return 5
	}
	runtime.GOMAXPROCS(runtime.NumCPU())
	if err := installClassifier(prop); err != nil {
		col.Res.Internal = err.Error()
		col.Res.Write(out)
		fmt.Fprintln(os.Stderr, "INTERNAL:", err)
		return 5
	}
	if rp := os.Getenv("VERIF_REPLAY"); rp != "" {
		return replay(ctx, p, rp)
	}
	p.Run(ctx)
	if col.Res.Internal != "" {
		// a monitor found its own oracle inconsistent: no verdict
		col.Res.Write(out)
		fmt.Fprintln(os.Stderr, "INTERNAL:", col.Res.Internal)
		return 5
	}
	for _, sp := range ctx.shardPanics {
		col.Res.Inconclusive = append(col.Res.Inconclusive, "part of the workload was lost to a panic inside the harness: "+sp)
		fmt.Fprintln(os.Stderr, "HARNESS-PANIC:", sp)
	}
	runWitnesses(ctx, p)
	if ctx.Build == "cover" {
		// reduced-scale reach measurement: the cell floors apply to the main run only
		col.Res.Targets = nil
	}
	res := col.Finish()
	if err := res.Write(out); err != nil {
		fmt.Fprintln(os.Stderr, "write result:", err)
		return 5
	}
	return 0
}

func setDefault(m int) { decimal128.DefaultRoundingMode = decimal128.RoundingMode(m) }

func currentDefault() int { return int(decimal128.DefaultRoundingMode) }

// Stride chooses a tier-dependent step of a systematic sweep and scales it
// inversely with the run's scale (the coverage flavour runs at 1/10 scale).
func (c *Ctx) Stride(quick, thorough int) int {
	s := float64(c.Pick(quick, thorough)) / c.Scale
	if s < 1 {
		return 1
	}
	return int(s + 0.5)
}

// Pick chooses a tier-dependent constant (not scaled).
func (c *Ctx) Pick(quick, thorough int) int {
	if c.Tier == "thorough" {
		return thorough
	}
	return quick
}
