package props

import (
	"fmt"
	"math"
	"math/big"
	"strconv"
	"strings"

	"github.com/woodsbury/decimal128"

	"verifharness/gen"
	"verifharness/mon"
	"verifharness/ref"
)

func init() {
	register(&Prop{
		ID: "C07",
		Rule: "format specs enumerated over verb {e,E,f,F,g,G} x precision {absent,0..40} x width {absent,1..40} x 32 flag subsets of {+,-,#,space,0}; each spec is applied to values engineered for carries, ties (even/odd kept digit, empty kept prefix), " +
			"g/G switch-over, zeros, 35-digit coefficients, large exponents, and to values a float64 holds exactly. Oracle layers: L1 digits = exact half-even rounding in big.Int, and the complete text (body layout, %g switch-over and zero trimming, #, sign flags, width, 0/- padding) from an independent model of the fmt/strconv rules applied to those digits for every finite value with an explicit precision (the model is validated against the installed fmt at the start of the run); L2 byte-equality with fmt on the float64 of the same exact value; " +
			"L3 Decimal.Append == Sprintf and package Format/Append(prec) agree with L1. non-trivial = a finite value whose digits had to be rounded, or an L2-comparable case with width/flags; distinct = distinct (spec, value).",
		Run:    runC07,
		Replay: replayC07,
		Assume: []string{"the installed toolchain's fmt/strconv is the model of float64 layout (L2)", "harness numeral reader and big.Int rounding are correct"},
		Cover:  []string{"digits.round", "digits.pad", "Decimal.format", "Decimal.Format", "Decimal.Append", "parseFormat", "digits.fmtE", "digits.fmtF", "Append"},
	})
}

type fmtJudge struct {
	ctx *Ctx
	sh  *mon.Shard
}

type fspec struct {
	verb  byte
	flags string // subset of "+-# 0" in canonical order
	width int    // -1 absent
	prec  int    // -1 absent
	plus  bool
	minus bool
	sharp bool
	space bool
	zero  bool
	spec  string // without '%'
}

func makeSpec(verb byte, flagBits int, width, prec int) fspec {
	f := fspec{verb: verb, width: width, prec: prec}
	var sb strings.Builder
	if flagBits&1 != 0 {
		sb.WriteByte('+')
		f.plus = true
	}
	if flagBits&2 != 0 {
		sb.WriteByte('-')
		f.minus = true
	}
	if flagBits&4 != 0 {
		sb.WriteByte('#')
		f.sharp = true
	}
	if flagBits&8 != 0 {
		sb.WriteByte(' ')
		f.space = true
	}
	if flagBits&16 != 0 {
		sb.WriteByte('0')
		f.zero = true
	}
	f.flags = sb.String()
	if width >= 0 {
		sb.WriteString(strconv.Itoa(width))
	}
	if prec >= 0 {
		sb.WriteByte('.')
		sb.WriteString(strconv.Itoa(prec))
	}
	sb.WriteByte(verb)
	f.spec = sb.String()
	return f
}

// heRound returns round-half-even(N*10^k / 10^unit) as an integer.
func heRound(N *big.Int, k, unit int) (*big.Int, bool, bool) {
	if k >= unit {
		return new(big.Int).Mul(N, ref.Pow10(k-unit)), false, false
	}
	den := ref.Pow10(unit - k)
	q, r := new(big.Int).QuoRem(N, den, new(big.Int))
	if r.Sign() == 0 {
		return q, false, false
	}
	r2 := new(big.Int).Lsh(r, 1)
	c := r2.Cmp(den)
	tie := c == 0
	if c > 0 || (tie && q.Bit(0) == 1) {
		q.Add(q, ref.One)
	}
	return q, true, tie
}

// expectDigits computes the exact value the formatted numeral must denote:
// (R, scale) meaning R*10^scale, plus the required count of fraction digits
// (-1 = not fixed) and, for e/E, the required exponent.
type expectDigits struct {
	R        *big.Int
	scale    int
	fracDig  int // required number of digits after the point, -1 if free
	rounded  bool
	tie      bool
	emptyTie bool
	carried  bool
	sciExp   int
	sci      bool
}

func expectFor(n ref.Num, verb byte, prec int) expectDigits {
	N, k := n.Coef, n.Exp
	zero := N.Sign() == 0
	switch verb {
	case 'f', 'F':
		p := prec
		if p < 0 {
			p = 6
		}
		if zero {
			return expectDigits{R: new(big.Int), scale: -p, fracDig: p}
		}
		R, rd, tie := heRound(N, k, -p)
		nd := ref.NumDigits(N)
		return expectDigits{R: R, scale: -p, fracDig: p, rounded: rd, tie: tie, emptyTie: tie && k+nd <= -p}
	case 'e', 'E':
		p := prec
		if p < 0 {
			p = 6
		}
		if zero {
			return expectDigits{R: new(big.Int), scale: -p, fracDig: p, sci: true, sciExp: 0}
		}
		X := ref.NumDigits(N) - 1 + k
		R, rd, tie := heRound(N, k, X-p)
		carried := false
		if ref.NumDigits(R) > p+1 {
			X++
			R.Quo(R, ref.Ten)
			carried = true
		}
		return expectDigits{R: R, scale: X - p, fracDig: p, rounded: rd, tie: tie, carried: carried, sci: true, sciExp: X}
	default: // g, G
		if prec < 0 || zero {
			return expectDigits{R: new(big.Int).Set(N), scale: k, fracDig: -1}
		}
		P := prec
		if P == 0 {
			P = 1
		}
		X := ref.NumDigits(N) - 1 + k
		R, rd, tie := heRound(N, k, X-(P-1))
		carried := false
		if ref.NumDigits(R) > P {
			X++
			R.Quo(R, ref.Ten)
			carried = true
		}
		return expectDigits{R: R, scale: X - (P - 1), fracDig: -1, rounded: rd, tie: tie, carried: carried}
	}
}

// checkL1 judges the digits of one produced text.
func checkL1(text string, n ref.Num, sp *fspec, padded bool) (bool, string, expectDigits) {
	ex := expectFor(n, sp.verb, sp.prec)
	t := text
	if padded {
		t = strings.Trim(t, " ")
	}
	// sign
	wantSign := byte(0)
	switch {
	case n.Neg:
		wantSign = '-'
	case padded && sp.plus:
		wantSign = '+'
	case padded && sp.space:
		wantSign = ' '
	}
	if wantSign == ' ' {
		// the space was trimmed with the padding; nothing to strip
		wantSign = 0
	}
	num, ok := ref.ReadNumeral(t)
	if !ok {
		return false, "a numeral", ex
	}
	if num.SignChar != wantSign {
		return false, fmt.Sprintf("sign character %q", string(rune(wantSign))), ex
	}
	m, k := num.Value()
	if !ref.SameValue(m, k, ex.R, ex.scale) {
		return false, fmt.Sprintf("digits denoting %se%d (exact half-even rounding)", ex.R.String(), ex.scale), ex
	}
	if ex.fracDig >= 0 && len(num.Frac) != ex.fracDig {
		return false, fmt.Sprintf("exactly %d fraction digits", ex.fracDig), ex
	}
	if ex.sci {
		if !num.HasExp || num.Exp != ex.sciExp && ex.R.Sign() != 0 {
			return false, fmt.Sprintf("exponent form with exponent %d", ex.sciExp), ex
		}
	}
	return true, "", ex
}

func (j *fmtJudge) judge(b ref.Bits, sp fspec, f64 *float64, only string) {
	n := ref.Decode(b)
	d := toD(b)
	mk := func(op string) *mon.Case {
		c := j.ctx.NewCase(j.sh, op)
		c.X = []string{b.Hex()}
		c.S = []string{sp.spec}
		if f64 != nil {
			c.F = []uint64{math.Float64bits(*f64)}
		}
		return c
	}
	var exd expectDigits
	if n.Class == ref.Finite {
		exd = expectFor(n, sp.verb, sp.prec)
	}
	nontriv := (n.Class == ref.Finite && exd.rounded) || (f64 != nil && (sp.width >= 0 || sp.flags != ""))
	h := hashStr("fmt", sp.spec, b.Hi, b.Lo)
	violate := func(op, kind, want, got string) {
		j.sh.Violate(mk(op), kind, want, got, fmt.Sprintf("d=%v spec=%%%s", n, sp.spec))
	}
	var sprintf string
	haveSprintf := false
	if only == "" || only == "Sprintf" || only == "Decimal.Append" {
		pv, pan := try(func() { sprintf = fmt.Sprintf("%"+sp.spec, d) })
		j.sh.Eval(h, nontriv)
		if pan {
			violate("Sprintf", "panic", "no panic", fmt.Sprint(pv))
		} else {
			haveSprintf = true
			if n.Class == ref.Finite {
				if ok, want, _ := checkL1(sprintf, n, &sp, true); !ok {
					violate("Sprintf", "digits", want, fmt.Sprintf("%q", sprintf))
				} else {
					j.sh.Cell("L1/Sprintf")
				}
				// complete text from the independent model of the fmt/strconv rules
				if want, ok := expectText(n, &sp); ok {
					if sprintf != want {
						violate("Sprintf", "text", fmt.Sprintf("%q (layout model of fmt on the exact half-even digits)", want), fmt.Sprintf("%q", sprintf))
					} else {
						j.sh.Cell("L1/text-model")
					}
				}
			}
			if f64 != nil {
				want := fmt.Sprintf("%"+sp.spec, *f64)
				if sprintf != want {
					violate("Sprintf", "layout", fmt.Sprintf("%q (fmt on float64 %v)", want, *f64), fmt.Sprintf("%q", sprintf))
				} else {
					j.sh.Cell("L2/equal-to-float64")
				}
			}
		}
	}
	if only == "" || only == "Decimal.Append" {
		var out []byte
		pre := []byte("0123456789abcdef")
		buf := append(make([]byte, 0, 16+j.sh.Evals%64), pre...)
		pv, pan := try(func() { out = d.Append(buf, sp.spec) })
		j.sh.Eval(h^0x5555, nontriv)
		if pan {
			violate("Decimal.Append", "panic", "no panic", fmt.Sprint(pv))
		} else if len(out) < 16 || string(out[:16]) != string(pre) {
			violate("Decimal.Append", "prefix", "buf prefix untouched", fmt.Sprintf("%q", out))
		} else if haveSprintf && string(out[16:]) != sprintf {
			violate("Decimal.Append", "append-vs-sprintf", fmt.Sprintf("%q (Sprintf)", sprintf), fmt.Sprintf("%q", out[16:]))
		} else {
			j.sh.Cell("L3/append-equals-sprintf")
		}
	}
	// package-level Format / Append with an explicit precision (no flags)
	if sp.flags == "" && sp.width < 0 && sp.prec >= 0 && sp.verb != 'F' && (only == "" || only == "Format" || only == "Append") {
		var s1 string
		var s2 []byte
		pv, pan := try(func() {
			s1 = decimal128.Format(d, sp.verb, sp.prec)
			s2 = decimal128.Append([]byte("xy"), d, sp.verb, sp.prec)
		})
		j.sh.Eval(h^0xaaaa, nontriv)
		switch {
		case pan:
			violate("Format", "panic", "no panic", fmt.Sprint(pv))
		case string(s2) != "xy"+s1:
			violate("Append", "append-vs-format", fmt.Sprintf("%q", "xy"+s1), fmt.Sprintf("%q", s2))
		case n.Class == ref.Finite:
			if ok, want, _ := checkL1(s1, n, &sp, false); !ok {
				violate("Format", "digits", want, fmt.Sprintf("%q", s1))
			} else {
				j.sh.Cell("L1/Format")
			}
			if want, ok := expectText(n, &sp); ok && s1 != want {
				violate("Format", "text", fmt.Sprintf("%q (layout model of strconv on the exact half-even digits)", want), fmt.Sprintf("%q", s1))
			}
			if f64 != nil {
				want := strconv.FormatFloat(*f64, sp.verb, sp.prec, 64)
				if s1 != want {
					violate("Format", "layout", fmt.Sprintf("%q (strconv on float64)", want), fmt.Sprintf("%q", s1))
				}
			}
		}
	}
	if n.Class == ref.Finite {
		switch {
		case exd.emptyTie:
			j.sh.Cell("round/tie-empty-prefix")
		case exd.tie:
			j.sh.Cell("round/tie")
		case exd.rounded:
			j.sh.Cell("round/inexact")
		default:
			j.sh.Cell("round/exact")
		}
		if exd.carried {
			j.sh.Cell("round/carry-into-new-digit")
		}
	} else {
		j.sh.Cell("special")
	}
	j.sh.Cell("verb/" + string(sp.verb))
	if nontriv && j.sh.Evals%150000 < 3 {
		j.sh.Sample(mk("Sprintf"))
	}
}

// float64Exact builds a value that a float64 holds exactly and that is a
// member of the decimal format: m*2^k. If shortDigits is set the value has at
// most 15 significant decimal digits.
func float64Exact(r *gen.RNG, shortDigits bool) (ref.Bits, float64, bool) {
	neg := r.Bool()
	if shortDigits {
		// integer of <= 15 digits times 2^-j with j <= 10 keeps <= 15+... digits; keep it simple:
		// m * 10^e with m < 2^53 odd-ish and |e| small only when exactly representable (e >= 0 and m*10^e < 2^53)
		switch r.Intn(3) {
		case 0:
			m := int64(r.U64() % 1_000_000_000_000_000)
			f := float64(m)
			if neg {
				f = -f
			}
			return ref.Encode(neg, big.NewInt(m), 0), f, true
		case 1:
			// k/2^j with small k: 0.5, 0.25, 0.375 ...
			jj := r.Range(1, 12)
			kk := int64(r.Range(1, 1<<uint(jj)))
			f := float64(kk) / float64(int64(1)<<uint(jj))
			c := new(big.Int).Mul(big.NewInt(kk), new(big.Int).Exp(big.NewInt(5), big.NewInt(int64(jj)), nil))
			if ref.NumDigits(c) > 15 {
				return ref.Bits{}, 0, false
			}
			if neg {
				f = -f
			}
			return ref.Encode(neg, c, -jj), f, true
		default:
			// d * 10^e exactly representable: small integer times power of ten below 2^53
			m := int64(r.Range(1, 9999))
			e := r.Range(0, 11)
			v := m
			for i := 0; i < e; i++ {
				v *= 10
			}
			f := float64(v)
			if neg {
				f = -f
			}
			return ref.Encode(neg, big.NewInt(m), e), f, true
		}
	}
	m := r.U64() >> uint(r.Range(11, 63))
	if m == 0 {
		m = 1
	}
	k := r.Range(-40, 40)
	f := math.Ldexp(float64(m), k)
	c := new(big.Int).SetUint64(m)
	e := 0
	if k >= 0 {
		c.Lsh(c, uint(k))
	} else {
		c.Mul(c, new(big.Int).Exp(big.NewInt(5), big.NewInt(int64(-k)), nil))
		e = k
	}
	if c.Cmp(ref.Cmax) > 0 {
		return ref.Bits{}, 0, false
	}
	if neg {
		f = -f
	}
	return ref.Encode(neg, c, e), f, true
}

// engineered values for the rounding positions a spec selects
func engineered(r *gen.RNG, sp *fspec) ref.Bits {
	p := sp.prec
	if p < 0 {
		p = 6
	}
	neg := r.Bool()
	switch r.Intn(12) {
	case 0: // 9...95 carries: 9.99..95 at the cut
		nd := r.Range(1, 33)
		c := new(big.Int).Sub(ref.Pow10(nd), ref.One)
		c.Mul(c, ref.Ten)
		c.Add(c, big.NewInt(int64(r.Pick(4, 5, 5, 6))))
		return ref.Encode(neg, c, -p-1+r.Pick(0, 0, 0, 1, -1))
	case 1: // exact tie at the f-position with even / odd kept digit
		nd := r.Range(0, 30)
		var c *big.Int
		if nd == 0 {
			c = new(big.Int)
		} else {
			c = r.Digits(nd)
		}
		c.Mul(c, ref.Ten)
		c.Add(c, big.NewInt(5))
		return ref.Encode(neg, c, -p-1)
	case 2: // tie with empty kept prefix: 0.0..05 at %.pf
		return ref.Encode(neg, big.NewInt(5), -p-1)
	case 3: // just above / below a tie
		nd := r.Range(1, 25)
		c := r.Digits(nd)
		c.Mul(c, ref.Pow10(4))
		c.Add(c, big.NewInt(int64(r.Pick(4999, 5000, 5001))))
		return ref.Encode(neg, c, -p-4)
	case 4: // tie at the significant-digit position (e/g): (p+1) or p digits then 5
		P := p + 1
		if sp.verb == 'g' || sp.verb == 'G' {
			P = p
			if P == 0 {
				P = 1
			}
		}
		if P > 33 {
			P = 33
		}
		c := r.Digits(P)
		c.Mul(c, ref.Ten)
		c.Add(c, big.NewInt(5))
		return ref.Encode(neg, c, r.Range(-30, 30))
	case 5: // rounds up into a new digit at the g switch-over: 9.99e(p-1) etc.
		nd := r.Range(1, 34)
		c := new(big.Int).Sub(ref.Pow10(nd), ref.One)
		X := r.Pick(p-1, p, p+1, -5, -4, -3, 5, 6, 20, 21)
		return ref.Encode(neg, c, gen.ClampExp(X-(nd-1)))
	case 6: // zero
		return ref.Encode(neg, new(big.Int), r.Range(-50, 50))
	case 7: // 35-digit coefficient
		c := new(big.Int).Sub(ref.Cmax, r.BigBelow(ref.Pow10(r.Range(1, 34))))
		return ref.Encode(neg, c, r.Range(-60, 30))
	case 8: // large exponents (long f output)
		c, _ := r.Coef()
		if r.Chance(1, 6) {
			return ref.Encode(neg, c, r.Pick(ref.MaxExp, ref.MinExp, 6000, -6000, 3000, -3000))
		}
		return ref.Encode(neg, c, r.Range(-300, 300))
	case 10: // printed exponent at the digit-count boundaries of the exponent field (directly, or via a rounding carry)
		X := r.Pick(9, 10, 11, 99, 100, 101, 999, 1000, 1001, 6144, 308, 309)
		if r.Bool() {
			X = -X
		}
		nd := r.Range(1, 34)
		var c *big.Int
		if r.Chance(1, 3) {
			c = new(big.Int).Sub(ref.Pow10(nd), ref.One) // 99..9: rounds up into the next exponent
			X--
		} else {
			c = r.Digits(nd)
		}
		return ref.Encode(neg, c, gen.ClampExp(X-(nd-1)))
	case 9: // small magnitudes near the f precision
		c := r.Digits(r.Range(1, 6))
		return ref.Encode(neg, c, -p+r.Range(-8, 2))
	}
	c, _ := r.Coef()
	return ref.Encode(neg, c, r.Range(-45, 45))
}

var fmtVerbs = []byte{'e', 'E', 'f', 'F', 'g', 'G'}

const nSpecCombos = 6 * 42 * 41 * 32

func comboSpec(idx int) fspec {
	v := idx % 6
	idx /= 6
	p := idx%42 - 1
	idx /= 42
	w := idx % 41
	idx /= 41
	fl := idx % 32
	if w == 0 {
		w = -1
	}
	return makeSpec(fmtVerbs[v], fl, w, p)
}

// validateTextModel compares the harness's model of the fmt/strconv layout
// rules with the installed toolchain's fmt on values a float64 holds exactly
// (the statement's configuration parameter). A disagreement is a defect of the
// oracle, never a verdict about the library.
func validateTextModel(seed uint64) error {
	r := gen.NewRNG(seed, 0xC07)
	n := 0
	for i := 0; i < 120000; i++ {
		sp := makeSpec(fmtVerbs[r.Intn(6)], r.Intn(32), r.Pick(-1, r.Range(0, 40)), r.Pick(-1, r.Range(0, 40), r.Range(0, 8)))
		b, f, ok := float64Exact(r, r.Chance(1, 3))
		if i%50 == 0 {
			f = 0
			if i%100 == 0 {
				f = math.Copysign(0, -1)
			}
			b, ok = ref.Encode(math.Signbit(f), new(big.Int), r.Range(-5, 5)), true
		}
		if !ok {
			continue
		}
		got, ok := expectText(ref.Decode(b), &sp)
		if !ok {
			continue
		}
		n++
		if want := fmt.Sprintf("%"+sp.spec, f); got != want {
			return fmt.Errorf("C07 text model disagrees with the toolchain's fmt: %%%s of %v: model %q, fmt %q", sp.spec, f, got, want)
		}
	}
	if n < 30000 {
		return fmt.Errorf("C07 text model validated on only %d cases", n)
	}
	return nil
}

func runC07(c *Ctx) {
	if err := validateTextModel(c.Seed); err != nil {
		c.Col.Res.Internal = err.Error()
		return
	}
	c.Col.Res.Extra["text_model_validated_against_fmt"] = true
	stride := c.Pick(1, 1)
	c.Parallel("specs", ref.NearestEven, func(sh *mon.Shard, r *gen.RNG) {
		j := &fmtJudge{ctx: c, sh: sh}
		reps := c.N(1, 3)
		off := int(c.Seed % uint64(stride))
		for rep := 0; rep < reps; rep++ {
			for idx := sh.ID; idx < nSpecCombos; idx += c.Shards {
				if (idx/c.Shards)%stride != (off+rep)%stride {
					continue
				}
				sp := comboSpec(idx)
				j.sh.Cell("speccombo-used")
				j.judge(engineered(r, &sp), sp, nil, "")
				// an L2-comparable value for the same spec
				if b, f, ok := float64Exact(r, sp.prec < 0); ok {
					j.judge(b, sp, &f, "")
				}
				if idx%97 == 0 {
					// specials through the same spec, compared with float64
					for _, f := range []float64{math.NaN(), math.Inf(1), math.Inf(-1)} {
						f := f
						var b ref.Bits
						switch {
						case math.IsNaN(f):
							b = ref.Bits{Hi: 0x7c00_0000_0000_0000, Lo: r.U64() & 0xffff}
						default:
							b = ref.EncodeInf(f < 0)
						}
						j.judge(b, sp, &f, "")
					}
					z := 0.0
					if r.Bool() {
						z = math.Copysign(0, -1)
					}
					j.judge(ref.Encode(math.Signbit(z), new(big.Int), r.Range(-10, 10)), sp, &z, "")
				}
			}
		}
	})
	c.Parallel("values", ref.NearestEven, func(sh *mon.Shard, r *gen.RNG) {
		j := &fmtJudge{ctx: c, sh: sh}
		n := c.N(60000, 400000)
		for i := 0; i < n; i++ {
			sp := makeSpec(fmtVerbs[r.Intn(6)], r.Pick(0, 0, 0, r.Intn(32)), r.Pick(-1, -1, r.Range(1, 40)), r.Pick(-1, r.Range(0, 40), r.Range(0, 8)))
			if i%4 == 1 {
				// spelling variants of the same spec: permuted / duplicated flags, "." for ".0"
				fl := []byte(sp.flags)
				for a := len(fl) - 1; a > 0; a-- {
					b := r.Intn(a + 1)
					fl[a], fl[b] = fl[b], fl[a]
				}
				if len(fl) > 0 && r.Bool() {
					fl = append(fl, fl[r.Intn(len(fl))])
				}
				rest := sp.spec[len(sp.flags):]
				if sp.prec == 0 && r.Bool() {
					rest = strings.Replace(rest, ".0", ".", 1)
				}
				sp.spec = string(fl) + rest
				j.sh.Cell("spec-spelling-variant")
			}
			if i%3 == 0 {
				if b, f, ok := float64Exact(r, sp.prec < 0); ok {
					j.judge(b, sp, &f, "")
					continue
				}
			}
			j.judge(engineered(r, &sp), sp, nil, "")
		}
	})
	c.Col.Res.Extra["spec_combinations_total"] = nSpecCombos
	c.Col.Res.Targets = append(c.Col.Res.Targets,
		mon.Target{Prefix: "round/", Total: 5, Min: 5},
		mon.Target{Prefix: "verb/", Total: 6, Min: 6},
		mon.Target{Prefix: "L", Total: 5, Min: 5},
	)
}

func replayC07(c *Ctx, sh *mon.Shard, cs *mon.Case) {
	b, _ := ref.ParseHex(cs.X[0])
	sp, ok := parseSpecString(cs.S[0])
	if !ok {
		return
	}
	j := &fmtJudge{ctx: c, sh: sh}
	var fp *float64
	if len(cs.F) > 0 {
		f := math.Float64frombits(cs.F[0])
		fp = &f
	}
	op := cs.Op
	if op == "Sprintf" {
		op = ""
	}
	j.judge(b, sp, fp, op)
}

// parseSpecString rebuilds an fspec from its canonical string (as produced by
// makeSpec).
func parseSpecString(s string) (fspec, bool) {
	if len(s) == 0 {
		return fspec{}, false
	}
	verb := s[len(s)-1]
	body := s[:len(s)-1]
	bits := 0
	i := 0
	for i < len(body) {
		switch body[i] {
		case '+':
			bits |= 1
		case '-':
			bits |= 2
		case '#':
			bits |= 4
		case ' ':
			bits |= 8
		case '0':
			bits |= 16
		default:
			goto done
		}
		i++
	}
done:
	rest := body[i:]
	width, prec := -1, -1
	if k := strings.IndexByte(rest, '.'); k >= 0 {
		if k > 0 {
			width, _ = strconv.Atoi(rest[:k])
		}
		prec, _ = strconv.Atoi(rest[k+1:])
	} else if rest != "" {
		width, _ = strconv.Atoi(rest)
	}
	return makeSpec(verb, bits, width, prec), true
}
