package props

import (
	"bytes"
	"fmt"
	"math"
	"math/big"

	"verifharness/gen"
	"verifharness/mon"
	"verifharness/ref"
)

func init() {
	register(&Prop{
		ID: "C14",
		Rule: "Decompose on every value class with nil / short / roomy buffers, then Compose of the parts; Compose of arbitrary parts: coefficient byte lengths 0..400 (thresholds 16/17, 32/33), leading zero bytes, N = c*10^k with k up to 900 (foldable) and c*10^k+1 (not foldable), " +
			"int32 exponent extremes, exponents compensated by the coefficient on both range ends, unknown forms. Oracle: representability decided in big.Int (exists c<=Cmax, -6176<=e<=6111 with c*10^e == N*10^exp); exact value or error, never rounding. " +
			"non-trivial = finite non-zero coefficient; distinct = distinct (form, sign, coefficient, exponent).",
		Run:    runC14,
		Replay: replayC14,
		Assume: []string{"harness big.Int arithmetic is exact"},
		Cover:  []string{"Decimal.Compose", "Decimal.Decompose"},
	})
}

type composeJudge struct {
	ctx *Ctx
	sh  *mon.Shard
}

// representable decides whether N*10^exp (N>0) is a member; if so returns one
// (c, e).
func representable(N *big.Int, exp int64) (*big.Int, int, bool) {
	c := new(big.Int).Set(N)
	t := int64(0)
	q, m := new(big.Int), new(big.Int)
	for {
		q.QuoRem(c, ref.Ten, m)
		if m.Sign() != 0 {
			break
		}
		c.Set(q)
		t++
	}
	top := exp + t // exponent of the stripped coefficient
	e := top
	if e > ref.MaxExp {
		e = ref.MaxExp
	}
	if e < ref.MinExp {
		return nil, 0, false
	}
	mm := top - e
	if mm > 40 {
		return nil, 0, false
	}
	cc := new(big.Int).Mul(c, ref.Pow10(int(mm)))
	if cc.Cmp(ref.Cmax) > 0 {
		return nil, 0, false
	}
	return cc, int(e), true
}

func (j *composeJudge) judgeCompose(form byte, neg bool, coef []byte, exp int32) {
	mk := func() *mon.Case {
		c := j.ctx.NewCase(j.sh, "Compose")
		c.N = []int64{int64(form), int64(exp)}
		if neg {
			c.N = append(c.N, 1)
		} else {
			c.N = append(c.N, 0)
		}
		c.B = [][]byte{append([]byte(nil), coef...)}
		return c
	}
	snapshot := append([]byte(nil), coef...)
	prior := ref.Bits{Hi: 0x3040_0000_0000_0000, Lo: 99}
	d := toD(prior)
	var err error
	pv, pan := try(func() { err = d.Compose(form, neg, coef, exp) })
	N := new(big.Int).SetBytes(snapshot)
	j.sh.Eval(hashStr("Compose", string(snapshot), uint64(form), uint64(uint32(exp)), boolU(neg)), form == 0 && N.Sign() != 0)
	if pan {
		j.sh.Violate(mk(), "panic", "no panic", fmt.Sprint(pv), "")
		return
	}
	if !bytes.Equal(coef, snapshot) {
		j.sh.Violate(mk(), "input-modified", "coefficient slice unchanged", fmt.Sprintf("%x", coef), "")
		return
	}
	got := num(d)
	detail := fmt.Sprintf("form=%d neg=%v len=%d exp=%d N=%s", form, neg, len(snapshot), exp, clipS(N.String(), 60))
	switch {
	case form == 1:
		if err != nil || got.Class != ref.Inf || got.Neg != neg {
			j.sh.Violate(mk(), "value", fmt.Sprintf("Inf neg=%v", neg), fmt.Sprintf("%v err=%v", got, err), detail)
		}
		j.sh.Cell("compose/inf")
	case form == 2:
		if err != nil || got.Class != ref.NaN {
			j.sh.Violate(mk(), "value", "NaN", fmt.Sprintf("%v err=%v", got, err), detail)
		}
		j.sh.Cell("compose/nan")
	case form != 0:
		if err == nil {
			j.sh.Violate(mk(), "accepted-unknown-form", "error for unknown form", got.String(), detail)
		}
		j.sh.Cell("compose/unknown-form")
	case N.Sign() == 0:
		if err != nil || !got.IsZero() || got.Neg != neg {
			j.sh.Violate(mk(), "value", fmt.Sprintf("zero neg=%v", neg), fmt.Sprintf("%v err=%v", got, err), detail)
		}
		j.sh.Cell("compose/zero")
	default:
		c, e, ok := representable(N, int64(exp))
		if ok {
			if err != nil {
				j.sh.Violate(mk(), "rejected-representable", fmt.Sprintf("%se%d (representable)", c, e), "error: "+err.Error(), detail)
				return
			}
			if got.Class != ref.Finite || got.Neg != neg || !ref.SameValue(got.Coef, got.Exp, c, e) {
				j.sh.Violate(mk(), "value", fmt.Sprintf("neg=%v %se%d", neg, c, e), got.String(), detail)
				return
			}
			j.sh.Cell("compose/representable")
			if exp > int32(ref.MaxExp) || exp < int32(ref.MinExp) {
				j.sh.Cell("compose/exp-compensated-by-coefficient")
			}
		} else {
			if err == nil {
				j.sh.Violate(mk(), "accepted-unrepresentable", "error (not representable exactly; no rounding)", got.String(), detail)
				return
			}
			j.sh.Cell("compose/unrepresentable-error")
		}
		l := len(bytes.TrimLeft(snapshot, "\x00"))
		switch {
		case l <= 16:
			j.sh.Cell("coeflen/<=16")
		case l <= 32:
			j.sh.Cell("coeflen/17-32")
		default:
			j.sh.Cell("coeflen/>32")
		}
	}
	if j.sh.Evals%60000 < 3 {
		j.sh.Sample(mk())
	}
}

func boolU(b bool) uint64 {
	if b {
		return 1
	}
	return 0
}

func (j *composeJudge) judgeDecompose(b ref.Bits, bufCap int, bufLen int) {
	n := ref.Decode(b)
	d := toD(b)
	mk := func() *mon.Case {
		c := j.ctx.NewCase(j.sh, "Decompose")
		c.X = []string{b.Hex()}
		c.N = []int64{int64(bufCap), int64(bufLen)}
		return c
	}
	var buf []byte
	if bufCap >= 0 {
		buf = make([]byte, bufLen, bufCap)
		for i := range buf {
			buf[i] = 0xAA
		}
	}
	full := buf[:cap(buf)]
	before := append([]byte(nil), full...)
	var form byte
	var neg bool
	var coef []byte
	var exp int32
	pv, pan := try(func() { form, neg, coef, exp = d.Decompose(buf) })
	j.sh.Eval(hash2("Decompose", b.Hi, b.Lo, uint64(bufCap)), n.Class == ref.Finite && !n.IsZero())
	if pan {
		j.sh.Violate(mk(), "panic", "no panic", fmt.Sprint(pv), "")
		return
	}
	detail := fmt.Sprintf("d=%v cap=%d -> form=%d neg=%v coef=%x exp=%d", n, bufCap, form, neg, coef, exp)
	wantForm := byte(0)
	switch n.Class {
	case ref.Inf:
		wantForm = 1
	case ref.NaN:
		wantForm = 2
	}
	if form != wantForm || neg != n.Neg {
		j.sh.Violate(mk(), "form", fmt.Sprintf("form=%d neg=%v", wantForm, n.Neg), fmt.Sprintf("form=%d neg=%v", form, neg), detail)
		return
	}
	// Whether and when the caller's buffer is written is not part of the property (driver.Decimal allows the
	// buffer to be used whenever it is large enough for the coefficient); it is recorded as evidence only.
	if !bytes.Equal(full, before) {
		j.sh.Cell("decompose/buffer-written")
	}
	if n.Class == ref.Finite {
		N := new(big.Int).SetBytes(coef)
		if !ref.SameValue(N, int(exp), n.Coef, n.Exp) {
			j.sh.Violate(mk(), "value", "coef*10^exp == |d|", fmt.Sprintf("%se%d", N, exp), detail)
			return
		}
	}
	// Compose of the parts rebuilds the value
	var back D
	coefCopy := append([]byte(nil), coef...)
	var err error
	_, pan2 := try(func() { err = back.Compose(form, neg, coefCopy, exp) })
	bn := num(back)
	if pan2 || err != nil || !sameValueSign(bn, n) {
		j.sh.Violate(mk(), "roundtrip", "Compose(Decompose(d)) == d", fmt.Sprintf("%v err=%v", bn, err), detail)
		return
	}
	switch {
	case bufCap < 0:
		j.sh.Cell("decompose/nil-buffer")
	case bufCap < 16:
		j.sh.Cell("decompose/short-buffer")
	default:
		j.sh.Cell("decompose/reused-buffer")
	}
	j.sh.Cell("decompose/class-" + n.Class.String())
}

func genComposeArgs(r *gen.RNG) (byte, bool, []byte, int32) {
	neg := r.Bool()
	lead := func(b []byte) []byte {
		z := r.Pick(0, 0, 0, 1, 2, 8, 15, 16, 17, 30, 31, 32, 33, 40, 300)
		return append(make([]byte, z), b...)
	}
	switch r.Intn(12) {
	case 0:
		return byte(r.Pick(1, 2, 3, 4, 255, 128)), neg, lead(r.Digits(r.Range(1, 20)).Bytes()), int32(r.Range(-100, 100))
	case 1: // zero coefficients of any length
		return 0, neg, make([]byte, r.Intn(40)), int32(r.Pick(0, math.MinInt32, math.MaxInt32, r.Range(-7000, 7000)))
	case 2, 3: // foldable: c * 10^k
		c, _ := r.Coef()
		if c.Sign() == 0 {
			c = big.NewInt(7)
		}
		if r.Chance(1, 4) {
			// the top tenth of the coefficient range (35 digits next to Cmax): c*10^k is the widest foldable input
			c = new(big.Int).Sub(ref.Cmax, r.BigBelow(ref.Pow10(r.Range(1, 33))))
		}
		k := r.Pick(r.Range(0, 40), r.Range(0, 120), r.Range(0, 900), 19, 38, 57, 4, 8)
		N := new(big.Int).Mul(c, ref.Pow10(k))
		var e int
		switch r.Intn(6) {
		case 0:
			e = r.Range(ref.MinExp-k-2, ref.MinExp-k+40)
		case 1:
			e = r.Range(ref.MaxExp-k-40, ref.MaxExp-k+2)
		case 2: // folded coefficient lands exactly on the largest / smallest exponent
			e = ref.MaxExp - k
		case 3:
			e = ref.MinExp - k
		default:
			e = r.Range(-7000, 7000)
		}
		return 0, neg, lead(N.Bytes()), int32(e)
	case 4: // not foldable: c*10^k + 1
		c, _ := r.Coef()
		k := r.Range(1, 200)
		N := new(big.Int).Mul(c, ref.Pow10(k))
		N.Add(N, big.NewInt(int64(r.Pick(1, 10, 100000))))
		return 0, neg, lead(N.Bytes()), int32(r.Range(-6400, 6200))
	case 5: // short coefficients with exponents above 6111 (scale-up branch)
		c := r.Digits(r.Range(1, 34))
		e := ref.MaxExp + r.Range(1, 36)
		return 0, neg, lead(c.Bytes()), int32(e)
	case 6: // exponents below -6176 compensated by trailing zeros
		c := r.Digits(r.Range(1, 20))
		k := r.Range(1, 36)
		N := new(big.Int).Mul(c, ref.Pow10(k))
		return 0, neg, lead(N.Bytes()), int32(ref.MinExp - r.Range(k-2, k+2))
	case 7: // int32 extremes
		c, _ := r.Coef()
		return 0, neg, lead(c.Bytes()), int32(r.Pick(math.MinInt32, math.MinInt32+1, math.MaxInt32, math.MaxInt32-1, -1<<20, 1<<20))
	case 8: // byte-length thresholds with random content
		l := r.Pick(15, 16, 17, 31, 32, 33, 34, 64, 400, r.Range(1, 60))
		b := make([]byte, l)
		for i := range b {
			b[i] = byte(r.U64())
		}
		return 0, neg, b, int32(r.Range(-6300, 6200))
	case 9: // around Cmax
		c := new(big.Int).Add(ref.Cmax, big.NewInt(int64(r.Range(-2, 12))))
		k := r.Intn(3)
		c.Mul(c, ref.Pow10(k))
		return 0, neg, lead(c.Bytes()), int32(r.Pick(ref.MaxExp-k, ref.MaxExp-k+1, ref.MinExp-k, ref.MinExp-k-1, 0))
	}
	c, _ := r.Coef()
	return 0, neg, lead(c.Bytes()), int32(r.Range(-6200, 6150))
}

func runC14(c *Ctx) {
	c.Parallel("sql", ref.NearestEven, func(sh *mon.Shard, r *gen.RNG) {
		j := &composeJudge{ctx: c, sh: sh}
		n := c.N(200000, 2000000)
		for i := 0; i < n; i++ {
			form, neg, coef, exp := genComposeArgs(r)
			j.judgeCompose(form, neg, coef, exp)
			if i%2 == 0 {
				b := r.AnyBits()
				switch r.Intn(3) {
				case 0:
					j.judgeDecompose(b, -1, 0)
				case 1:
					cp := r.Range(0, 15)
					j.judgeDecompose(b, cp, r.Intn(cp+1))
				default:
					cp := r.Range(16, 32)
					j.judgeDecompose(b, cp, r.Intn(cp+1))
				}
			}
		}
	})
	c.Col.Res.Targets = append(c.Col.Res.Targets,
		mon.Target{Prefix: "compose/", Total: 7, Min: 7},
		mon.Target{Prefix: "coeflen/", Total: 3, Min: 3},
		mon.Target{Prefix: "decompose/", Total: 6, Min: 6},
	)
}

func replayC14(c *Ctx, sh *mon.Shard, cs *mon.Case) {
	j := &composeJudge{ctx: c, sh: sh}
	switch cs.Op {
	case "Compose":
		j.judgeCompose(byte(cs.N[0]), cs.N[2] == 1, cs.B[0], int32(cs.N[1]))
	case "Decompose":
		b, _ := ref.ParseHex(cs.X[0])
		j.judgeDecompose(b, int(cs.N[0]), int(cs.N[1]))
	}
}
