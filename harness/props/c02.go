package props

import (
	"fmt"
	"math/big"

	"verifharness/gen"
	"verifharness/mon"
	"verifharness/ref"
)

func init() {
	register(&Prop{
		ID: "C02",
		Rule: "pairs of finite operands: operand-width classes (64x64 fast path, 128x128), constructed products ending in 5 0..0 (ties), divisors 2^i 5^j (terminating quotients), " +
			"x = k*y +/- 1 (quotient-estimate steering), repeating quotients, results in the subnormal band, at the 1e-6177 flush threshold and around MaxFinite, plus random hostile shapes. " +
			"Each pair is judged for Mul/QuoWithMode in 6 modes and Mul/Quo under the current DefaultRoundingMode (6 phases). Oracle: exact product / rational quotient rounded into the member set with the flush rule. " +
			"non-trivial = exact result is not a member, or lies below the smallest subnormal, or overflows, or the divisor is zero; distinct = distinct (op,x,y,mode).",
		Run:    runC02,
		Replay: replayC02,
		Assume: []string{"harness BID decoder and big.Int arithmetic are correct", "VerifBits/VerifFromBits expose the true bits"},
		Cover:  []string{"Decimal.MulWithMode", "Decimal.QuoWithMode", "uint128.div", "uint128.mul", "RoundingMode.reduce256", "RoundingMode.reduce128", "RoundingMode.round"},
	})
}

type mulJudge struct {
	ctx *Ctx
	sh  *mon.Shard
}

func widthClass(a, b *big.Int) string {
	w := func(c *big.Int) string {
		switch {
		case c.BitLen() <= 64:
			return "64"
		case c.BitLen() <= 100:
			return "100"
		}
		return "128"
	}
	return w(a) + "x" + w(b)
}

func (j *mulJudge) judgePair(x, y ref.Bits, only string, onlyMode int) {
	xn, yn := ref.Decode(x), ref.Decode(y)
	if xn.Class != ref.Finite || yn.Class != ref.Finite {
		return
	}
	dx, dy := toD(x), toD(y)
	def := ref.Mode(currentDefault())
	neg := xn.Neg != yn.Neg
	for _, quo := range []bool{false, true} {
		var ex *ref.Exact
		var wantZero, wantInf, wantNaN bool
		switch {
		case !quo && (xn.IsZero() || yn.IsZero()):
			wantZero = true
		case quo && yn.IsZero() && xn.IsZero():
			wantNaN = true
		case quo && yn.IsZero():
			wantInf = true
		case quo && xn.IsZero():
			wantZero = true
		case !quo:
			n := new(big.Int).Mul(xn.Coef, yn.Coef)
			ex = ref.PrepareScaled(neg, n, xn.Exp+yn.Exp)
		default:
			d := xn.Exp - yn.Exp
			a, b := xn.Coef, yn.Coef
			if d > 0 {
				a = new(big.Int).Mul(a, ref.Pow10(d))
			} else if d < 0 {
				b = new(big.Int).Mul(b, ref.Pow10(-d))
			}
			ex = ref.Prepare(neg, a, b)
		}
		opW, opD, pfx := "MulWithMode", "Mul", "mul"
		if quo {
			opW, opD, pfx = "QuoWithMode", "Quo", "quo"
		}
		judge := func(op string, m ref.Mode, explicit bool) {
			if only != "" && (only != op || (explicit && onlyMode != int(m))) {
				return
			}
			var r D
			pv, pan := try(func() {
				switch {
				case explicit && !quo:
					r = dx.MulWithMode(dy, rm(m))
				case explicit && quo:
					r = dx.QuoWithMode(dy, rm(m))
				case !quo:
					r = dx.Mul(dy)
				default:
					r = dx.Quo(dy)
				}
			})
			mk := func() *mon.Case {
				c := j.ctx.NewCase(j.sh, op)
				c.X = []string{x.Hex(), y.Hex()}
				if explicit {
					c.Mode = int(m)
				}
				return c
			}
			var w ref.Rounded
			nontriv := wantInf || wantNaN
			if ex != nil {
				w = ex.Round(m, true)
				nontriv = !ex.IsExact || w.Inf || w.Flush
			}
			mv := uint64(99)
			if explicit {
				mv = uint64(m)
			}
			j.sh.Eval(hash2(op, x.Hi, x.Lo, y.Hi, y.Lo, mv), nontriv)
			if pan {
				j.sh.Violate(mk(), "panic", "no panic", fmt.Sprint(pv), "")
				return
			}
			got := num(r)
			var want string
			ok := false
			switch {
			case wantNaN:
				want = "NaN (0/0)"
				ok = got.Class == ref.NaN
				j.sh.Cell(pfx + "-0/0")
			case wantInf:
				want = fmt.Sprintf("Inf neg=%v (finite/0)", neg)
				ok = got.Class == ref.Inf && got.Neg == neg
				j.sh.Cell(pfx + "-x/0")
			case wantZero:
				want = fmt.Sprintf("zero neg=%v", neg)
				ok = got.IsZero() && got.Neg == neg
				j.sh.Cell(pfx + "-zero-operand")
			default:
				want = w.String()
				ok = w.Matches(got)
				switch {
				case ex.Huge || ex.E > ref.MaxExp:
					j.sh.Cell(pfx + "-band/overflow-far")
				case w.Flush:
					j.sh.Cell(pfx + "-band/flush")
				case !ex.IsExact:
					j.sh.Cell(decisionCell(pfx+"dt", ex, m))
					if ex.Guard == 5 && !ex.Sticky {
						j.sh.Cell(pfx + "-tie")
					}
				default:
					j.sh.Cell(pfx + "-exact")
				}
				if !ex.Huge {
					switch {
					case ex.E == ref.MinExp && ex.Q.Cmp(c10e33) < 0:
						j.sh.Cell(pfx + "-band/subnormal")
					case w.Inf:
						j.sh.Cell(pfx + "-band/overflow-edge")
					case ex.E >= ref.MaxExp-1:
						j.sh.Cell(pfx + "-band/top")
					}
				}
			}
			if !ok {
				kind := "value"
				if got.Class == ref.NaN && !wantNaN {
					kind = "nan-from-finite"
				} else if got.Class != ref.Finite {
					kind = "class"
				}
				j.sh.Violate(mk(), kind, want, got.String(), fmt.Sprintf("x=%v y=%v mode=%v", xn, yn, m))
			} else if nontriv && j.sh.Evals%50000 == 1 {
				j.sh.Sample(mk())
			}
		}
		for m := ref.Mode(0); m < ref.NumModes; m++ {
			judge(opW, m, true)
		}
		judge(opD, def, false)
		j.sh.Cell(pfx + "-width/" + widthClass(xn.Coef, yn.Coef))
	}
}

func clampCoef(c *big.Int) *big.Int {
	if c.Sign() < 0 {
		c.Neg(c)
	}
	if c.Cmp(ref.Cmax) > 0 {
		c.Mod(c, ref.CmaxP1)
	}
	return c
}

// buildMulTie constructs x, y whose exact product is M*10^i with M of 35..37
// digits ending in 5 (a rounding tie or near-tie once digits are dropped).
func buildMulTie(r *gen.RNG) (*big.Int, *big.Int) {
	total := r.Range(35, 38)
	d1 := r.Range(1, 34)
	d2 := total - d1
	if d2 < 1 {
		d2 = 1
	}
	if d2 > 34 {
		d2 = 34
	}
	m1 := r.Digits(d1)
	m2 := r.Digits(d2)
	// force m1 to end in 5 and m2 odd
	m1.Sub(m1, new(big.Int).Mod(m1, ref.Ten))
	m1.Add(m1, big.NewInt(5))
	if m2.Bit(0) == 0 {
		m2.Add(m2, ref.One)
	}
	i := r.Intn(12)
	a := new(big.Int).Mul(m1, new(big.Int).Lsh(ref.One, uint(i)))
	b := new(big.Int).Mul(m2, new(big.Int).Exp(big.NewInt(5), big.NewInt(int64(i)), nil))
	if a.Cmp(ref.Cmax) > 0 || b.Cmp(ref.Cmax) > 0 {
		a, b = m1, m2
	}
	return clampCoef(a), clampCoef(b)
}

func pow2x5(r *gen.RNG) *big.Int {
	a := r.Intn(40)
	b := r.Intn(20)
	c := new(big.Int).Lsh(ref.One, uint(a))
	c.Mul(c, new(big.Int).Exp(big.NewInt(5), big.NewInt(int64(b)), nil))
	if c.Cmp(ref.Cmax) > 0 {
		c = big.NewInt(int64(r.Pick(2, 4, 5, 8, 16, 25, 32, 64, 125, 625)))
	}
	return c
}

// divisorShape returns divisors that steer the multi-word division.
func divisorShape(r *gen.RNG) *big.Int {
	switch r.Intn(8) {
	case 0:
		return big.NewInt(int64(r.Range(1, 1000)))
	case 1:
		return pow2x5(r)
	case 2: // 9...9
		return new(big.Int).Sub(ref.Pow10(r.Range(1, 34)), ref.One)
	case 3: // high word exactly 1 / just above 2^64
		c := new(big.Int).Lsh(ref.One, 64)
		return c.Add(c, new(big.Int).SetUint64(r.U64()>>uint(r.Intn(64))))
	case 4: // chosen bit length
		bl := r.Range(2, 113)
		c := new(big.Int).Lsh(ref.One, uint(bl-1))
		c.Add(c, r.BigBelow(c))
		return clampCoef(c)
	case 5: // high word all ones pattern
		c := new(big.Int).SetUint64(^uint64(0) >> uint(r.Range(15, 63)))
		c.Lsh(c, 64)
		c.Or(c, new(big.Int).SetUint64(r.U64()))
		return clampCoef(c)
	case 6:
		return big.NewInt(int64(r.Pick(3, 7, 9, 11, 13, 27, 37, 99, 101, 333, 999, 9999999)))
	}
	c, _ := r.Coef()
	if c.Sign() == 0 {
		c = big.NewInt(1)
	}
	return c
}

var thresholdCoefs = []string{"1", "5", "9", "10", "15", "25", "49", "50", "51", "99", "100", "4999999999", "5000000000", "5000000001",
	"9999999999999999999999999999999999", "10000000000000000000000000000000001", "4999999999999999999999999999999999",
	"5000000000000000000000000000000000", "5000000000000000000000000000000001", "12980742146337069071326240823050239", "1298074214633706907132624082305024"}

func thresholdCoef(r *gen.RNG) *big.Int {
	if r.Chance(1, 4) {
		c, _ := r.Coef()
		if c.Sign() == 0 {
			c = big.NewInt(1)
		}
		return c
	}
	c, _ := new(big.Int).SetString(thresholdCoefs[r.Intn(len(thresholdCoefs))], 10)
	return c
}

// splitExp picks exponents e1, e2 with e1+e2 = s (or e1-e2 = s when diff),
// both encodable.
func splitExp(r *gen.RNG, s int, diff bool) (int, int, bool) {
	for try := 0; try < 20; try++ {
		e1 := r.Range(ref.MinExp, ref.MaxExp)
		var e2 int
		if diff {
			e2 = e1 - s
		} else {
			e2 = s - e1
		}
		if e2 >= ref.MinExp && e2 <= ref.MaxExp {
			return e1, e2, true
		}
	}
	return 0, 0, false
}

func (j *mulJudge) genCase(r *gen.RNG, i int) (ref.Bits, ref.Bits) {
	sx, sy := r.Bool(), r.Bool()
	switch i % 16 {
	case 0, 1: // ties in products
		a, b := buildMulTie(r)
		e1 := r.Range(-3000, 3000)
		e2 := r.Range(-3000, 3000)
		return ref.Encode(sx, a, e1), ref.Encode(sx != sy, b, e2)
	case 2: // both below 2^64 (fast paths)
		a := new(big.Int).SetUint64(r.U64() >> uint(r.Intn(40)))
		b := new(big.Int).SetUint64(r.U64() >> uint(r.Intn(40)))
		return ref.Encode(sx, a, r.Range(-200, 200)), ref.Encode(sy, b, r.Range(-200, 200))
	case 3: // x / (2^a 5^b): terminating quotients, exact ties
		a, _ := r.Coef()
		return ref.Encode(sx, a, r.Range(-300, 300)), ref.Encode(sy, pow2x5(r), r.Range(-300, 300))
	case 4: // x = k*y + {-1,0,1}
		y := divisorShape(r)
		k := big.NewInt(int64(r.Range(1, 1000)))
		if r.Bool() {
			k = r.BigBelow(ref.Pow10(r.Range(1, 20)))
			k.Add(k, ref.One)
		}
		x := new(big.Int).Mul(k, y)
		x.Add(x, big.NewInt(int64(r.Range(-1, 1))))
		if x.Sign() <= 0 || x.Cmp(ref.Cmax) > 0 {
			x, _ = r.Coef()
		}
		return ref.Encode(sx, x, r.Range(-100, 100)), ref.Encode(sy, y, r.Range(-100, 100))
	case 5, 6: // divisor shapes against hostile dividends
		x, _ := r.Coef()
		return ref.Encode(sx, x, r.Range(-500, 500)), ref.Encode(sy, divisorShape(r), r.Range(-500, 500))
	case 7: // product around the subnormal band / flush threshold
		a, b := thresholdCoef(r), thresholdCoef(r)
		if r.Bool() {
			a = ref.Pow10(r.Intn(20))
		}
		da, db := ref.NumDigits(a), ref.NumDigits(b)
		s := -6177 - (da - 1) - (db - 1) + r.Range(-3, 38)
		if e1, e2, ok := splitExp(r, s, false); ok {
			return ref.Encode(sx, a, e1), ref.Encode(sy, b, e2)
		}
	case 8: // quotient around the subnormal band / flush threshold
		a := thresholdCoef(r)
		var b *big.Int
		switch r.Intn(3) {
		case 0:
			b = ref.Pow10(r.Intn(20))
		case 1:
			b = pow2x5(r)
		default:
			b = divisorShape(r)
		}
		da, db := ref.NumDigits(a), ref.NumDigits(b)
		s := -6177 - (da - 1) + (db - 1) + r.Range(-3, 38)
		if e1, e2, ok := splitExp(r, s, true); ok {
			return ref.Encode(sx, a, e1), ref.Encode(sy, b, e2)
		}
	case 9: // product around MaxFinite
		a, b := thresholdCoef(r), thresholdCoef(r)
		if r.Bool() {
			a, _ = r.Coef()
			b, _ = r.Coef()
			if a.Sign() == 0 {
				a = big.NewInt(7)
			}
			if b.Sign() == 0 {
				b = big.NewInt(3)
			}
		}
		da, db := ref.NumDigits(a), ref.NumDigits(b)
		s := 6145 - (da - 1) - (db - 1) + r.Range(-37, 3)
		if e1, e2, ok := splitExp(r, s, false); ok {
			return ref.Encode(sx, a, e1), ref.Encode(sy, b, e2)
		}
	case 10: // quotient around MaxFinite
		a := thresholdCoef(r)
		b := divisorShape(r)
		da, db := ref.NumDigits(a), ref.NumDigits(b)
		s := 6145 - (da - 1) + (db - 1) + r.Range(-37, 3)
		if e1, e2, ok := splitExp(r, s, true); ok {
			return ref.Encode(sx, a, e1), ref.Encode(sy, b, e2)
		}
	case 11: // zero operands
		x := ref.Encode(sx, new(big.Int), r.Exp())
		y := r.Finite()
		if r.Chance(1, 3) {
			y = ref.Encode(sy, new(big.Int), r.Exp())
		}
		if r.Bool() {
			return y, x
		}
		return x, y
	case 13: // quotient / product aimed at the top of the coefficient range (just below Cmax) and at the 34/35-digit seam
		var q *big.Int
		switch r.Intn(3) {
		case 0:
			q = new(big.Int).Sub(ref.Cmax, new(big.Int).SetUint64(r.U64()>>uint(r.Intn(40))))
		case 1:
			q = new(big.Int).Add(ref.CmaxP1d10, new(big.Int).SetUint64(r.U64()>>uint(r.Intn(40))))
		default:
			q = new(big.Int).Sub(ref.Pow10(34), new(big.Int).SetUint64(r.U64()>>uint(r.Intn(40))))
		}
		cy := divisorShape(r)
		if r.Bool() {
			cy = big.NewInt(int64(r.Range(2, 99999)))
		}
		// cx ~ q*cy scaled to at most 34 digits: the quotient cx/cy then starts with the digits of q
		t := new(big.Int).Mul(q, cy)
		if m := ref.NumDigits(t) - 34; m > 0 {
			t.Quo(t, ref.Pow10(m))
			if r.Bool() {
				t.Add(t, ref.One)
			}
		}
		if t.Sign() == 0 || t.Cmp(ref.Cmax) > 0 {
			t = big.NewInt(1)
		}
		if r.Chance(1, 3) {
			// the product side: q-like coefficient times a short factor
			return ref.Encode(sx, clampCoef(new(big.Int).Quo(q, cy)), r.Range(-300, 300)), ref.Encode(sy, cy, r.Range(-300, 300))
		}
		return ref.Encode(sx, t, r.Range(-300, 300)), ref.Encode(sy, cy, r.Range(-300, 300))
	case 14: // exact short result whose exponent exceeds 6111: it is representable only by padding the coefficient
		// with zeros, and the padded coefficient a*10^k lands next to the largest coefficient / an internal threshold
		T := r.ThresholdFull()
		if r.Bool() {
			T = new(big.Int).Sub(ref.Cmax, new(big.Int).SetUint64(r.U64()>>uint(r.Intn(64))))
		}
		k := r.Range(1, 33)
		a := new(big.Int).Quo(T, ref.Pow10(k))
		a.Add(a, big.NewInt(int64(r.Pick(0, 0, 0, 1, -1))))
		if a.Sign() <= 0 {
			a = big.NewInt(1)
		}
		k += r.Pick(0, 0, 0, 1, -1)               // one step beyond / short of the last admissible padding
		jz := r.Pick(0, 1, 5, 19, 20, 21, 25, 33) // the other operand is 10^jz written out: wide when jz >= 20
		b := ref.Pow10(jz)
		if r.Chance(1, 4) {
			// or a small exact factor split off the short coefficient
			f := big.NewInt(int64(r.Pick(2, 4, 5, 8, 10, 16, 25, 100)))
			if nb := new(big.Int).Mul(b, f); new(big.Int).Mod(a, f).Sign() == 0 && nb.Cmp(ref.Cmax) <= 0 {
				a.Quo(a, f)
				b = nb
			}
		}
		if r.Bool() {
			// product: e1 + e2 + jz = 6111 + k
			if e1, e2, ok := splitExp(r, ref.MaxExp+k-jz, false); ok {
				return ref.Encode(sx, a, e1), ref.Encode(sy, b, e2)
			}
		} else {
			// quotient: e1 - e2 - jz = 6111 + k
			if e1, e2, ok := splitExp(r, ref.MaxExp+k+jz, true); ok {
				return ref.Encode(sx, a, e1), ref.Encode(sy, b, e2)
			}
		}
	case 15: // the exact product of the two coefficients lands next to an intermediate threshold of the wide pipeline
		if a, b, ok := r.ProductTargetPair(); ok {
			j.sh.Cell("gen/product-targeted")
			if r.Bool() {
				a, b = b, a
			}
			return ref.Encode(sx, a, r.Range(-3000, 3000)), ref.Encode(sy, b, r.Range(-3000, 3000))
		}
	case 12: // both wide (256-bit product, 1e19 reduction loop)
		a := new(big.Int).Sub(ref.Cmax, r.BigBelow(ref.Pow10(r.Range(1, 33))))
		b := new(big.Int).Sub(ref.Cmax, r.BigBelow(ref.Pow10(r.Range(1, 33))))
		return ref.Encode(sx, a, r.Range(-3000, 3000)), ref.Encode(sy, b, r.Range(-3000, 3000))
	}
	x := r.Finite()
	y := r.Finite()
	if xn := ref.Decode(x); r.Bool() && !xn.IsZero() {
		// the second operand derived from part of the first one's coefficient (low/high word, 10^19 chunk ...)
		y = r.WordImageOperand(sy, xn.Coef, r.Range(-60, 60))
		j.sh.Cell("gen/word-image-operand")
	}
	return x, y
}

func runC02(c *Ctx) {
	for def := ref.Mode(0); def < ref.NumModes; def++ {
		c.Parallel("pairs", def, func(sh *mon.Shard, r *gen.RNG) {
			j := &mulJudge{ctx: c, sh: sh}
			n := c.N(12000, 150000)
			for i := 0; i < n; i++ {
				x, y := j.genCase(r, i)
				j.judgePair(x, y, "", 0)
			}
		})
	}
	c.Col.Res.Targets = append(c.Col.Res.Targets,
		mon.Target{Prefix: "muldt/", Total: 3864, Min: c.Pick(600, 1000)},
		mon.Target{Prefix: "quodt/", Total: 3864, Min: c.Pick(600, 1000)},
		mon.Target{Prefix: "mul-band/", Total: 5, Min: 5},
		mon.Target{Prefix: "quo-band/", Total: 5, Min: 5},
	)
}

func replayC02(c *Ctx, sh *mon.Shard, cs *mon.Case) {
	x, _ := ref.ParseHex(cs.X[0])
	y, _ := ref.ParseHex(cs.X[1])
	j := &mulJudge{ctx: c, sh: sh}
	j.judgePair(x, y, cs.Op, cs.Mode)
}
