package props

import (
	"bytes"
	"encoding/binary"
	"fmt"
	"math/big"

	"github.com/woodsbury/decimal128"

	"verifharness/gen"
	"verifharness/mon"
	"verifharness/ref"
)

func init() {
	register(&Prop{
		ID: "C12",
		Rule: "16-byte strings: uniform random, every biased exponent 0..12287 x both coefficient forms x sign x coefficient shapes, NaN/Inf with random payload bits; values produced by Parse and arithmetic (so produced encodings are covered, not only injected ones); " +
			"byte slices of length 0..64. Oracle: the harness's own big-endian IEEE 754-2008 BID decoder applied to the marshalled bytes must denote the value reported by two other observers (d.Rat and the harness's reading of d.String), " +
			"UnmarshalBinary accepts exactly the 16-byte inputs, Marshal(Unmarshal(b)) == b, inputs untouched, outputs fresh. non-trivial = finite non-zero value or special; distinct = distinct byte strings.",
		Run:    runC12,
		Replay: replayC12,
		Assume: []string{"harness BID decoder follows IEEE 754-2008 decimal128 BID (written from the standard's field layout)"},
		Cover:  []string{"Decimal.MarshalBinary", "Decimal.UnmarshalBinary", "compose", "Decimal.decompose"},
	})
}

type binJudge struct {
	ctx *Ctx
	sh  *mon.Shard
}

func b2int(b bool) int {
	if b {
		return 1
	}
	return 0
}

func bitsFromBytes(b []byte) ref.Bits {
	return ref.Bits{Hi: binary.BigEndian.Uint64(b[0:8]), Lo: binary.BigEndian.Uint64(b[8:16])}
}

func bytesFromBits(b ref.Bits) []byte {
	out := make([]byte, 16)
	binary.BigEndian.PutUint64(out[0:8], b.Hi)
	binary.BigEndian.PutUint64(out[8:16], b.Lo)
	return out
}

// judgeMarshal checks MarshalBinary of a Decimal given by the library value d
// (origin describes how d was produced).
func (j *binJudge) judgeMarshal(d D, origin string, intended ...ref.Num) {
	rb := toB(d)
	mk := func(op string) *mon.Case {
		c := j.ctx.NewCase(j.sh, op)
		c.X = []string{rb.Hex()}
		c.S = []string{origin}
		return c
	}
	var out []byte
	var err error
	pv, pan := try(func() { out, err = d.MarshalBinary() })
	n := ref.Decode(rb)
	j.sh.Eval(hash2("MarshalBinary", rb.Hi, rb.Lo), n.Class != ref.Finite || !n.IsZero())
	if pan {
		j.sh.Violate(mk("MarshalBinary"), "panic", "no panic", fmt.Sprint(pv), "")
		return
	}
	if err != nil || len(out) != 16 {
		j.sh.Violate(mk("MarshalBinary"), "shape", "16 bytes, nil error", fmt.Sprintf("%d bytes err=%v", len(out), err), "")
		return
	}
	// independent decode of the bytes
	dec := ref.Decode(bitsFromBytes(out))
	detail := fmt.Sprintf("bytes=%x origin=%s", out, origin)
	if n.Class != ref.Finite {
		// the library's own view of a special value (its text) must be the class and sign the bytes denote
		var text string
		_, pans := try(func() { text = d.String() })
		want := "NaN"
		if n.Class == ref.Inf {
			want = "+Inf"
			if n.Neg {
				want = "-Inf"
			}
		}
		if pans || text != want {
			j.sh.Violate(mk("MarshalBinary"), "observer", "d.String() = "+want+" for bytes that denote it", fmt.Sprintf("panic=%v %q", pans, clipS(text, 60)), detail)
			return
		}
		var isNaN, isInf, isInfSigned, isInfOther bool
		_, panp := try(func() {
			isNaN, isInf = d.IsNaN(), d.IsInf(0)
			sg := 1
			if n.Neg {
				sg = -1
			}
			isInfSigned, isInfOther = d.IsInf(sg), d.IsInf(-sg)
		})
		wantInf := n.Class == ref.Inf
		if panp || isNaN != (n.Class == ref.NaN) || isInf != wantInf || isInfSigned != wantInf || isInfOther {
			j.sh.Violate(mk("MarshalBinary"), "observer", "IsNaN/IsInf agreeing with the class and sign the bytes denote ("+want+")",
				fmt.Sprintf("panic=%v IsNaN=%v IsInf(0)=%v IsInf(sign)=%v IsInf(-sign)=%v", panp, isNaN, isInf, isInfSigned, isInfOther), detail)
			return
		}
	}
	switch {
	case n.Class == ref.NaN:
		if dec.Class != ref.NaN || out[0]&0x7c != 0x7c {
			j.sh.Violate(mk("MarshalBinary"), "encoding", "NaN prefix 0x7C", dec.String(), detail)
			return
		}
		j.sh.Cell("marshal/nan")
	case n.Class == ref.Inf:
		if dec.Class != ref.Inf || out[0]&0x7c != 0x78 || dec.Neg != n.Neg || (out[0]&0x80 != 0) != n.Neg {
			j.sh.Violate(mk("MarshalBinary"), "encoding", "Inf prefix 0x78/0xF8 with the sign", dec.String(), detail)
			return
		}
		j.sh.Cell("marshal/inf")
	default:
		if dec.Class != ref.Finite {
			j.sh.Violate(mk("MarshalBinary"), "encoding", "finite encoding", dec.String(), detail)
			return
		}
		// observer 1: d.Rat()
		var r *big.Rat
		_, panr := try(func() { r = d.Rat(nil) })
		// observer 2: d.String() read by the harness
		var text string
		_, pans := try(func() { text = d.String() })
		numeral, okText := ref.ReadNumeral(text)
		if panr || pans || !okText {
			j.sh.Violate(mk("MarshalBinary"), "observer", "Rat and String usable as observers", fmt.Sprintf("rat panic=%v string=%q", panr, text), detail)
			return
		}
		if dec.Rat().Cmp(r) != 0 {
			j.sh.Violate(mk("MarshalBinary"), "encoding", "BID fields denoting d.Rat() = "+clipS(r.String(), 80), dec.String(), detail)
			return
		}
		m, k := numeral.Value()
		if !ref.SameValue(m, k, dec.Coef, dec.Exp) || (numeral.SignChar == '-') != dec.Neg || dec.Neg != d.Signbit() {
			j.sh.Violate(mk("MarshalBinary"), "encoding", "BID fields denoting d.String() = "+text, dec.String(), detail)
			return
		}
		// when the producer's intended exact value is known (a literal or New
		// arguments that are representable as written), the bytes must denote it
		if len(intended) == 1 {
			w := intended[0]
			if dec.Neg != w.Neg || !ref.SameValue(dec.Coef, dec.Exp, w.Coef, w.Exp) {
				j.sh.Violate(mk("MarshalBinary"), "encoding", "BID fields denoting the produced value "+w.String(), dec.String(), detail)
				return
			}
			j.sh.Cell("marshal/intended-value-checked")
		}
		// form rule: the steering form only when the coefficient needs bit 113
		if dec.Large && dec.Coef.BitLen() <= 113 {
			j.sh.Violate(mk("MarshalBinary"), "encoding", "small form for coefficients below 2^113", dec.String(), detail)
			return
		}
		if dec.Large {
			j.sh.Cell("marshal/finite-large-form")
		} else {
			j.sh.Cell("marshal/finite-small-form")
		}
		j.sh.Cell(fmt.Sprintf("bexp/%d", (dec.Exp+ref.Bias)/64))
	}
	// fresh output: mutating it changes neither d nor a second Marshal
	saved := append([]byte(nil), out...)
	for i := range out {
		out[i] ^= 0xff
	}
	out2, _ := d.MarshalBinary()
	if !bytes.Equal(out2, saved) || toB(d) != rb {
		j.sh.Violate(mk("MarshalBinary"), "aliasing", "a fresh slice on every call", fmt.Sprintf("%x", out2), detail)
		return
	}
	// lossless: Unmarshal(Marshal(d)) == d bit for bit
	var back D
	if err := back.UnmarshalBinary(saved); err != nil || toB(back) != rb {
		j.sh.Violate(mk("UnmarshalBinary"), "roundtrip", "bits "+rb.Hex(), fmt.Sprintf("%s err=%v", toB(back).Hex(), err), detail)
		return
	}
	j.sh.Cell("origin/" + origin)
	if j.sh.Evals%200000 < 2 {
		j.sh.Sample(mk("MarshalBinary"))
	}
}

// judgeUnmarshal checks UnmarshalBinary on an arbitrary byte slice.
func (j *binJudge) judgeUnmarshal(in []byte) {
	mk := func() *mon.Case {
		c := j.ctx.NewCase(j.sh, "UnmarshalBinary")
		c.B = [][]byte{append([]byte(nil), in...)}
		return c
	}
	snapshot := append([]byte(nil), in...)
	prior := ref.Bits{Hi: 0x3040_0000_0000_0000, Lo: 7}
	d := toD(prior)
	var err error
	pv, pan := try(func() { err = d.UnmarshalBinary(in) })
	j.sh.Eval(hashStr("UnmarshalBinary", string(in)), len(in) == 16)
	if pan {
		j.sh.Violate(mk(), "panic", "no panic", fmt.Sprint(pv), "")
		return
	}
	if !bytes.Equal(in, snapshot) {
		j.sh.Violate(mk(), "input-modified", "input slice unchanged", fmt.Sprintf("%x", in), "")
		return
	}
	if len(in) != 16 {
		if err == nil {
			j.sh.Violate(mk(), "accepted-wrong-length", "error for length != 16", "nil error", fmt.Sprintf("len=%d", len(in)))
		}
		j.sh.Cell("unmarshal/wrong-length")
		return
	}
	if err != nil {
		j.sh.Violate(mk(), "rejected", "every 16-byte string accepted", err.Error(), "")
		return
	}
	want := bitsFromBytes(in)
	if toB(d) != want {
		j.sh.Violate(mk(), "bits", want.Hex(), toB(d).Hex(), "")
		return
	}
	out, err2 := d.MarshalBinary()
	if err2 != nil || !bytes.Equal(out, in) {
		j.sh.Violate(mk(), "roundtrip", fmt.Sprintf("%x", in), fmt.Sprintf("%x err=%v", out, err2), "")
		return
	}
	j.sh.Cell("unmarshal/ok")
	j.judgeMarshal(d, "unmarshal")
}

func runC12(c *Ctx) {
	c.Parallel("bytes", ref.NearestEven, func(sh *mon.Shard, r *gen.RNG) {
		j := &binJudge{ctx: c, sh: sh}
		// every biased exponent, both forms (split over shards)
		for be := sh.ID; be <= 12287; be += c.Shards {
			for form := 0; form < 2; form++ {
				var coef *big.Int
				if form == 1 {
					// needs bit 113: 2^113 .. Cmax
					coef = new(big.Int).Lsh(ref.One, 113)
					if r.Chance(1, 3) {
						// the lowest coefficients of the steering form: every stored coefficient bit above the low word is zero
						coef.Add(coef, new(big.Int).SetUint64(r.U64()>>uint(r.Pick(0, 0, 32, 63, 64))))
					} else {
						coef.Add(coef, r.BigBelow(new(big.Int).Sub(ref.CmaxP1, coef)))
					}
				} else {
					coef, _ = r.Coef()
					if coef.BitLen() > 113 {
						coef.Rsh(coef, 2)
					}
				}
				j.judgeUnmarshal(bytesFromBits(ref.Encode(r.Bool(), coef, be-ref.Bias)))
			}
			if be < 8 || be > 12279 || be%1024 == 0 {
				// the extreme exponent fields with the lowest steering-form coefficients (2^113 + one word) and the
				// highest small-form ones: exponent-field / coefficient-bit adjacency in both layouts
				for k := 0; k < 6; k++ {
					lowSteer := new(big.Int).Lsh(ref.One, 113)
					lowSteer.Add(lowSteer, new(big.Int).SetUint64(r.U64()>>uint(r.Pick(0, 32, 63, 64))))
					j.judgeUnmarshal(bytesFromBits(ref.Encode(k%2 == 0, lowSteer, be-ref.Bias)))
					highSmall := new(big.Int).Sub(new(big.Int).Lsh(ref.One, 113), new(big.Int).SetUint64(1+r.U64()>>uint(r.Pick(0, 32, 63))))
					j.judgeUnmarshal(bytesFromBits(ref.Encode(k%2 == 1, highSmall, be-ref.Bias)))
				}
			}
		}
		n := c.N(150000, 2000000)
		for i := 0; i < n; i++ {
			switch i % 8 {
			case 0: // wrong lengths
				l := r.Intn(65)
				if l == 16 {
					l = r.Pick(0, 15, 17, 32)
				}
				b := make([]byte, l)
				for k := range b {
					b[k] = byte(r.U64())
				}
				j.judgeUnmarshal(b)
			case 1: // uniform 16 bytes
				j.judgeUnmarshal(bytesFromBits(ref.Bits{Hi: r.U64(), Lo: r.U64()}))
			case 2: // produced by Parse
				digits := r.Digits(r.Range(1, 40)).String()
				if r.Bool() {
					// hostile coefficient shapes (form boundary 2^113, word boundaries, Cmax ...)
					c, _ := r.Coef()
					digits = c.String()
				}
				neg := r.Bool()
				e := r.Range(-6200, 6150)
				lit := fmt.Sprintf("%s%se%d", []string{"", "-"}[b2int(neg)], digits, e)
				if d, err := decimal128.Parse(lit); err == nil {
					c, _ := new(big.Int).SetString(digits, 10)
					if c.Cmp(ref.Cmax) <= 0 && e >= ref.MinExp && e <= ref.MaxExp {
						j.judgeMarshal(d, "parse", ref.Num{Class: ref.Finite, Neg: neg, Coef: c, Exp: e})
					} else {
						j.judgeMarshal(d, "parse")
					}
				}
			case 3: // produced by arithmetic
				x, y := toD(r.Finite()), toD(r.Finite())
				if r.Chance(1, 3) {
					// identity operations: the operand's value is re-composed by the library
					one := decimal128.New(1, 0)
					switch r.Intn(4) {
					case 0:
						j.judgeMarshal(x.Mul(one), "mul")
					case 1:
						j.judgeMarshal(x.Quo(one), "quo")
					case 2:
						j.judgeMarshal(x.Add(decimal128.New(0, 0)), "add")
					default:
						j.judgeMarshal(x.Round(40, decimal128.ToZero).Sub(decimal128.New(0, 0)), "sub")
					}
					continue
				}
				switch r.Intn(4) {
				case 0:
					j.judgeMarshal(x.Add(y), "add")
				case 1:
					j.judgeMarshal(x.Mul(y), "mul")
				case 2:
					j.judgeMarshal(x.Quo(y), "quo")
				default:
					j.judgeMarshal(x.Sub(y), "sub")
				}
			case 4: // produced by constructors
				j.judgeMarshal(decimal128.New(int64(r.U64()), r.Range(-6200, 6150)), "new")
			default:
				j.judgeUnmarshal(bytesFromBits(r.AnyBits()))
			}
		}
	})
	c.Col.Res.Targets = append(c.Col.Res.Targets,
		mon.Target{Prefix: "bexp/", Total: 192, Min: 192},
		mon.Target{Prefix: "marshal/", Total: 5, Min: 5},
		mon.Target{Prefix: "origin/", Total: 7, Min: 7},
	)
}

func replayC12(c *Ctx, sh *mon.Shard, cs *mon.Case) {
	j := &binJudge{ctx: c, sh: sh}
	if len(cs.B) > 0 {
		j.judgeUnmarshal(cs.B[0])
		return
	}
	b, _ := ref.ParseHex(cs.X[0])
	j.judgeMarshal(toD(b), "replay")
}
