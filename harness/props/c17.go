package props

import (
	"fmt"
	"math"
	"math/big"

	"github.com/woodsbury/decimal128"

	"verifharness/gen"
	"verifharness/mon"
	"verifharness/ref"
)

func init() {
	register(&Prop{
		ID: "C17",
		Rule: "finite arguments over every decimal exponent (both parities, all residues mod 3) x coefficient shapes; perfect squares of 1..17-digit and perfect cubes of 1..11-digit integers times 10^(2j)/10^(3j) and their +/-1-unit neighbours in 34-digit form; " +
			"(m+1/2)^k shapes; subnormal arguments; zeros and infinities. Oracle: exact integer inequality (R -/+ (1/2+1e-20))^k * 10^(kE) <=/>= |x| with R*10^E the result at the format's finest exponent; sign, exact roots of perfect powers. " +
			"non-trivial = the root is not exactly representable; distinct = distinct (function, argument bits).",
		Run:    runC17,
		Replay: replayC17,
		Assume: []string{"harness big.Int arithmetic is exact", "judged under the default ToNearestEven (the statement speaks of correct rounding to nearest)"},
		Cover:  []string{"Sqrt", "Cbrt", "RoundingMode.reduce192"},
	})
}

type rootJudge struct {
	ctx *Ctx
	sh  *mon.Shard
}

var (
	e20       = ref.Pow10(20)
	twoE20    = new(big.Int).Mul(big.NewInt(2), ref.Pow10(20))
	hNumer    = new(big.Int).Add(ref.Pow10(20), big.NewInt(2)) // 2e20 * (1/2 + 1e-20) = 1e20 + 2
	hAdjacent = new(big.Int).Add(twoE20, big.NewInt(2))        // 2e20 * (1 + 1e-20): "one of the two adjacent Decimals"
	bigThree  = big.NewInt(3)
)

// rootBoundsOK decides (|r| - h u)^k <= |x| <= (|r| + h u)^k exactly, with
// h = 1/2 + 1e-20 and u the format spacing at |r|.
func rootBoundsOK(rn, xn ref.Num, k int) (bool, string) { return rootBoundsH(rn, xn, k, hNumer) }

// rootBoundsH is the same inequality with h given as 2e20*h.
func rootBoundsH(rn, xn ref.Num, k int, hNumer *big.Int) (bool, string) {
	// r at its finest admissible exponent: R * 10^E
	ex := ref.PrepareScaled(false, rn.Coef, rn.Exp)
	R, E := ex.Q, ex.E
	if !ex.IsExact {
		return false, "internal: result not located exactly"
	}
	// scale by 2e20: lo = 2e20*R - (1e20+2), hi = 2e20*R + (1e20+2)
	base := new(big.Int).Mul(R, twoE20)
	lo := new(big.Int).Sub(base, hNumer)
	hi := new(big.Int).Add(base, hNumer)
	kk := big.NewInt(int64(k))
	// compare lo^k * 10^(kE) <= X * 10^ex * (2e20)^k <= hi^k * 10^(kE)
	X := new(big.Int).Mul(xn.Coef, new(big.Int).Exp(twoE20, kk, nil))
	d := xn.Exp - k*E
	loP := new(big.Int).Exp(lo, kk, nil)
	hiP := new(big.Int).Exp(hi, kk, nil)
	if d >= 0 {
		if d > 400 {
			return false, "result far too small"
		}
		X.Mul(X, ref.Pow10(d))
	} else {
		if -d > 400 {
			return false, "result far too large"
		}
		p := ref.Pow10(-d)
		loP.Mul(loP, p)
		hiP.Mul(hiP, p)
	}
	if lo.Sign() > 0 && loP.Cmp(X) > 0 {
		return false, "result too large: (|r| - (1/2+1e-20)u)^k > |x|"
	}
	if hiP.Cmp(X) < 0 {
		return false, "result too small: (|r| + (1/2+1e-20)u)^k < |x|"
	}
	return true, ""
}

func (j *rootJudge) judge(x ref.Bits, cube bool, wantExact *big.Int, wantExactExp int) {
	xn := ref.Decode(x)
	op := "Sqrt"
	k := 2
	if cube {
		op, k = "Cbrt", 3
	}
	mk := func() *mon.Case {
		c := j.ctx.NewCase(j.sh, op)
		c.X = []string{x.Hex()}
		return c
	}
	var r D
	pv, pan := try(func() {
		if cube {
			r = decimal128.Cbrt(toD(x))
		} else {
			r = decimal128.Sqrt(toD(x))
		}
	})
	j.sh.Eval(hash2(op, x.Hi, x.Lo), xn.Class == ref.Finite && !xn.IsZero() && wantExact == nil)
	detail := fmt.Sprintf("%s(%v)", op, xn)
	if pan {
		j.sh.Violate(mk(), "panic", "no panic", fmt.Sprint(pv), detail)
		return
	}
	g := num(r)
	switch {
	case xn.Class == ref.NaN:
		if g.Class != ref.NaN {
			j.sh.Violate(mk(), "class", "NaN", g.String(), detail)
		}
		return
	case xn.Class == ref.Inf:
		if cube || !xn.Neg {
			if g.Class != ref.Inf || g.Neg != xn.Neg {
				j.sh.Violate(mk(), "class", "the infinity itself", g.String(), detail)
			}
		} else if g.Class != ref.NaN {
			j.sh.Violate(mk(), "class", "NaN for Sqrt(-Inf)", g.String(), detail)
		}
		j.sh.Cell("special/inf")
		return
	case xn.IsZero():
		if !g.IsZero() || g.Neg != xn.Neg {
			j.sh.Violate(mk(), "value", fmt.Sprintf("zero neg=%v", xn.Neg), g.String(), detail)
		}
		j.sh.Cell("special/zero")
		return
	case !cube && xn.Neg:
		if g.Class != ref.NaN {
			j.sh.Violate(mk(), "class", "NaN for a negative argument", g.String(), detail)
		}
		j.sh.Cell("special/sqrt-negative")
		return
	}
	if g.Class != ref.Finite || g.IsZero() {
		j.sh.Violate(mk(), "class", "a finite non-zero root", g.String(), detail)
		return
	}
	if g.Neg != (cube && xn.Neg) {
		j.sh.Violate(mk(), "sign", "sign of the argument (Cbrt) / positive (Sqrt)", g.String(), detail)
		return
	}
	if wantExact != nil && currentDefault() >= int(ref.ToZero) && !ref.SameValue(g.Coef, g.Exp, wantExact, wantExactExp) {
		// observation, not a verdict: under a directed default mode the library rounds its (inexact) iterate in that
		// direction, so a perfect power can come back as the neighbour of its root (Cbrt(54872) = 37.99...9 under
		// ToZero). The statement's "correctly rounded" can only be read for the nearest modes; adjacency is still judged.
		j.sh.Cell("directed-default/perfect-power-returned-as-neighbour")
	} else if wantExact != nil {
		if !ref.SameValue(g.Coef, g.Exp, wantExact, wantExactExp) {
			j.sh.Violate(mk(), "exact-root", fmt.Sprintf("%se%d (perfect power)", wantExact, wantExactExp), g.String(), detail)
			return
		}
		j.sh.Cell(op + "/perfect-power")
	}
	if currentDefault() >= int(ref.ToZero) {
		// Sqrt and Cbrt round with DefaultRoundingMode. Under a directed default mode only the first clause of the
		// statement is judged: the result is one of the two Decimals adjacent to the exact root (error at most
		// one unit, with the statement's 1e-20 margin), and perfect powers are exact (checked above).
		if ok, why := rootBoundsH(g, xn, k, hAdjacent); !ok {
			j.sh.Violate(mk(), "adjacent", "one of the two Decimals adjacent to the exact root (directed default mode)", g.String()+" ("+why+")", detail)
			return
		}
		j.sh.Cell(fmt.Sprintf("directed-default/%s/m%d", op, currentDefault()))
	} else if ok, why := rootBoundsOK(g, xn, k); !ok {
		j.sh.Violate(mk(), "rounding", "correctly rounded root up to 1e-20 ulp", g.String()+" ("+why+")", detail)
		return
	}
	// evidence: exponent residue classes, distance to the rounding midpoint
	lead := ref.NumDigits(xn.Coef) - 1 + xn.Exp
	j.sh.Cell(fmt.Sprintf("%s/lead-mod-%d/%d", op, k, ((lead%k)+k)%k))
	j.sh.Cell(fmt.Sprintf("%s/exp-mod-%d/%d", op, k, ((xn.Exp%k)+k)%k))
	if xn.Exp <= ref.MinExp+40 && ref.NumDigits(xn.Coef) < 30 {
		j.sh.Cell(op + "/subnormal-argument")
	}
	if !cube && j.sh.Evals%8 == 0 {
		// distance of the true root from the nearest rounding midpoint, in ulps (approximate, evidence only; sampled)
		xf := new(big.Float).SetPrec(400).SetInt(xn.Coef)
		e := xn.Exp
		if e%2 != 0 {
			xf.Mul(xf, new(big.Float).SetInt64(10))
			e--
		}
		s := new(big.Float).SetPrec(400).Sqrt(xf) // sqrt(coef) * 10^(e/2)
		ge := g.Exp - e/2
		// s / 10^ge in units of r's last place
		var sc *big.Float
		if ge >= 0 {
			sc = new(big.Float).SetPrec(400).Quo(s, new(big.Float).SetPrec(400).SetInt(ref.Pow10(ge)))
		} else {
			sc = new(big.Float).SetPrec(400).Mul(s, new(big.Float).SetPrec(400).SetInt(ref.Pow10(-ge)))
		}
		fl := new(big.Int)
		sc.Int(fl)
		frac, _ := new(big.Float).Sub(sc, new(big.Float).SetInt(fl)).Float64()
		dist := math.Abs(frac - 0.5)
		b := 0
		if dist > 0 {
			b = int(-math.Log10(dist))
		} else {
			b = 99
		}
		if b > 20 {
			b = 20
		}
		j.sh.Cell(fmt.Sprintf("Sqrt/midpoint-distance/1e-%d", b))
		j.sh.TrackMax("closest_midpoint_neg_log10/Sqrt", float64(b), nil)
	}
	if j.sh.Evals%40000 < 2 {
		j.sh.Sample(mk())
	}
}

// nearMidpointRoot solves m = t (mod 2^K), m = -t-1 (mod 5^K), 0 <= m < 10^K,
// so that (m-t)(m+t+1) is divisible by 10^K.
func nearMidpointRoot(t *big.Int, K int) (*big.Int, bool) {
	p2 := new(big.Int).Lsh(ref.One, uint(K))
	p5 := new(big.Int).Exp(big.NewInt(5), big.NewInt(int64(K)), nil)
	inv := new(big.Int).ModInverse(new(big.Int).Mod(p2, p5), p5)
	if inv == nil {
		return nil, false
	}
	// m = t + 2^K * k with t + 2^K k = -t-1 (mod 5^K)  =>  k = (-2t-1) * inv(2^K) (mod 5^K)
	k := new(big.Int).Mul(t, big.NewInt(-2))
	k.Sub(k, ref.One)
	k.Mul(k, inv)
	k.Mod(k, p5)
	m := new(big.Int).Mul(p2, k)
	m.Add(m, new(big.Int).Mod(t, p2))
	m.Mod(m, new(big.Int).Mul(p2, p5))
	if m.Cmp(t) <= 0 {
		return nil, false
	}
	return m, true
}

// nearMidpointCube builds a Cbrt argument whose exact root lies extremely
// close to a rounding midpoint. There is no modular shortcut for cubes (cubing
// is a bijection on the units mod 2^K and 5^K), but next to a short root s the
// expansion (s+d)^3 = s^3 + 3s^2 d + 3s d^2 + d^3 has a linear term that is a
// multiple of half an argument-ulp and a quadratic term that can be tuned: with
// d = (k+1/2) root-ulps, k near sqrt((n+phi) ux / (3 s ur^2)) makes the cube of
// the midpoint land within ~1e-17 argument-ulps of a representable argument.
// Returns the argument coefficient/exponent and |root - midpoint| in root-ulps.
func nearMidpointCube(r *gen.RNG) (*big.Int, int, float64, bool) {
	s := int64(r.Pick(1, 1, 1, 2, 3, 4, 5, 6, 7, 8, 9))
	// root coefficient: s followed by zeros, at full width (35 digits while it fits, else 34)
	fits := func(v int64, d int) bool {
		// v*10^d plus a one per cent margin is a valid coefficient
		t := new(big.Int).Mul(big.NewInt(v*101), ref.Pow10(d-2))
		return t.Cmp(ref.Cmax) <= 0
	}
	rd := 34 // number of fraction digits of the root
	if !fits(s, 34) {
		rd = 33
	}
	S := new(big.Int).Mul(big.NewInt(s), ref.Pow10(rd)) // s in root-ulps
	// argument x = root^3 in [s^3, (s+1)^3): its ulp 10^-xd
	s3 := s * s * s
	xd := 34
	for !fits(s3, xd) {
		xd--
	}
	q := 3*rd - xd // (root-ulp)^3 = 10^-3rd ; x-ulp = 10^-xd ; x-ulps per (root-ulp)^3 = 10^(xd-3rd)
	// choose n, solve 3 s k^2 * 10^-q ~ n + phi for k
	nmax := r.Range(1, 9)
	n := r.BigBelow(ref.Pow10(nmax))
	n.Add(n, ref.One)
	twoN := new(big.Int).Mul(n, big.NewInt(2))
	if s%2 == 1 {
		twoN.Add(twoN, ref.One) // phi = 1/2 when 3 s^2 / 2 has fraction one half
	}
	// quadratic term in argument-ulps: 3 s k^2 ur^2/ux = 3 s k^2 * 10^-(2rd-xd); k0 = sqrt(twoN * 10^(2rd-xd) / (6 s))
	t := new(big.Int).Mul(twoN, ref.Pow10(2*rd-xd))
	t.Quo(t, big.NewInt(6*s))
	k0 := new(big.Int).Sqrt(t)
	if k0.Sign() == 0 {
		return nil, 0, 0, false
	}
	var bestX *big.Int
	best := 1.0
	eight10q := new(big.Int).Mul(big.NewInt(8), ref.Pow10(q))
	for dk := int64(-2); dk <= 2; dk++ {
		k := new(big.Int).Add(k0, big.NewInt(dk))
		if k.Sign() < 0 {
			continue
		}
		c := new(big.Int).Add(S, k) // root coefficient below the midpoint
		if c.Cmp(ref.Cmax) >= 0 {
			continue
		}
		C2 := new(big.Int).Add(new(big.Int).Mul(c, big.NewInt(2)), ref.One)
		cube := new(big.Int).Exp(C2, big.NewInt(3), nil)
		// nearest x: cube / (8*10^q)
		x, rem := new(big.Int).QuoRem(cube, eight10q, new(big.Int))
		if new(big.Int).Mul(rem, big.NewInt(2)).Cmp(eight10q) > 0 {
			x.Add(x, ref.One)
			rem.Sub(rem, eight10q)
		}
		if x.Sign() <= 0 || x.Cmp(ref.Cmax) > 0 {
			continue
		}
		// root(x) - midpoint = -rem / (6 C2^2) root-ulps
		num, _ := new(big.Float).SetInt(rem).Float64()
		den, _ := new(big.Float).SetInt(new(big.Int).Mul(big.NewInt(6), new(big.Int).Mul(C2, C2))).Float64()
		d := math.Abs(num / den)
		if d < best && rem.Sign() != 0 {
			best, bestX = d, x
		}
	}
	if bestX == nil || best > 1e-9 {
		return nil, 0, 0, false
	}
	return bestX, -xd, best, true
}

func (j *rootJudge) genAndJudge(r *gen.RNG, i int) {
	neg := r.Bool()
	switch i % 10 {
	case 0: // perfect squares
		m := r.Digits(r.Range(1, 17))
		jj := r.Range(-1500, 1500)
		sq := new(big.Int).Mul(m, m)
		e := 2 * jj
		x := ref.Encode(false, sq, gen.ClampExp(e))
		x = cohortVariant(r, x)
		j.judge(x, false, m, jj)
	case 1: // perfect cubes
		m := r.Digits(r.Range(1, 11))
		jj := r.Range(-1500, 1500)
		cu := new(big.Int).Mul(m, new(big.Int).Mul(m, m))
		x := ref.Encode(neg, cu, gen.ClampExp(3*jj))
		x = cohortVariant(r, x)
		j.judge(x, true, m, jj)
	case 2: // neighbours of perfect powers in 34-digit form
		cube := r.Bool()
		var p *big.Int
		if cube {
			m := r.Digits(r.Range(1, 11))
			p = new(big.Int).Mul(m, new(big.Int).Mul(m, m))
		} else {
			m := r.Digits(r.Range(1, 17))
			p = new(big.Int).Mul(m, m)
		}
		sh := 34 - ref.NumDigits(p)
		if sh > 0 {
			p.Mul(p, ref.Pow10(sh))
		}
		p.Add(p, big.NewInt(int64(r.Pick(-1, 1, -2, 2))))
		e := r.Range(-3000, 3000)
		j.judge(decOf(neg && cube, p, e-sh), cube, nil, 0)
	case 3: // (m + 1/2)^k shapes rounded both ways
		cube := r.Bool()
		k := 2
		if cube {
			k = 3
		}
		m := r.Digits(r.Range(5, 34/k))
		t := new(big.Int).Mul(m, big.NewInt(2))
		t.Add(t, ref.One) // 2m+1
		p := new(big.Int).Exp(t, big.NewInt(int64(k)), nil)
		den := new(big.Int).Exp(big.NewInt(2), big.NewInt(int64(k)), nil) // 2^k
		q := new(big.Int).Quo(p, den)                                     // floor((m+1/2)^k)
		if r.Bool() {
			q.Add(q, ref.One)
		}
		if q.Cmp(ref.Cmax) > 0 {
			q.Quo(q, ref.Ten)
		}
		j.judge(decOf(neg && cube, q, r.Range(-3000, 3000)), cube, nil, 0)
	case 4: // subnormal and range-end arguments
		c, _ := r.Coef()
		if c.Sign() == 0 {
			c = big.NewInt(2)
		}
		e := ref.MinExp + r.Intn(6)
		if r.Bool() {
			e = ref.MaxExp - r.Intn(6)
		}
		cube := r.Bool()
		j.judge(ref.Encode(neg && cube, c, e), cube, nil, 0)
	case 5: // specials and zeros
		j.judge(r.AnyBits(), r.Bool(), nil, 0)
	case 6: // Sqrt arguments whose exact root lies just below a rounding midpoint (by about t^2/(2m) ulp)
		K := r.Pick(33, 34)
		tl := r.Range(0, 13)
		t := r.BigBelow(ref.Pow10(tl + 1))
		m, ok := nearMidpointRoot(t, K)
		if ok {
			// N * 10^K = (m + 1/2)^2 - (t + 1/2)^2 = (m - t)(m + t + 1)
			N := new(big.Int).Mul(new(big.Int).Sub(m, t), new(big.Int).Add(new(big.Int).Add(m, t), ref.One))
			N.Quo(N, ref.Pow10(K))
			if N.Sign() > 0 && N.Cmp(ref.Cmax) <= 0 {
				e := 2 * r.Range(-1500, 1500)
				if K == 33 {
					e++
				}
				j.sh.Cell("Sqrt/constructed-near-midpoint")
				j.judge(ref.Encode(false, N, e), false, nil, 0)
				return
			}
		}
		c, _ := r.Coef()
		j.judge(ref.Encode(false, c, r.Range(ref.MinExp, ref.MaxExp)), false, nil, 0)
	case 8: // Cbrt arguments whose exact root lies within ~1e-10 .. 1e-19 ulp of a rounding midpoint
		if xc, xe, dist, ok := nearMidpointCube(r); ok {
			b := 0
			if dist > 0 {
				b = int(-math.Log10(dist))
			}
			if b > 20 {
				b = 20
			}
			j.sh.Cell(fmt.Sprintf("Cbrt/constructed-near-midpoint/1e-%d", b))
			j.sh.TrackMax("closest_midpoint_neg_log10/Cbrt", float64(b), nil)
			j.judge(ref.Encode(neg, xc, xe+3*r.Pick(0, 0, 1, -1, r.Range(-2000, 2000))), true, nil, 0)
			return
		}
		c, _ := r.Coef()
		j.judge(ref.Encode(neg, c, r.Range(ref.MinExp, ref.MaxExp)), true, nil, 0)
	case 7: // result-driven: the root's coefficient lands next to an internal threshold of the result path
		cube := r.Bool()
		k := 2
		if cube {
			k = 3
		}
		R := r.ThresholdFull()
		if r.Chance(1, 4) {
			R, _ = r.Coef()
			if ref.NumDigits(R) < 34 {
				R.Mul(R, ref.Pow10(34-ref.NumDigits(R)))
			}
			if R.Sign() == 0 {
				R = ref.Pow10(33)
			}
		}
		P := new(big.Int).Exp(R, big.NewInt(int64(k)), nil)
		d := ref.NumDigits(P) - r.Pick(34, 34, 34, 33, 30)
		xc := new(big.Int).Quo(P, ref.Pow10(d))
		if r.Bool() {
			xc.Add(xc, ref.One)
		}
		if xc.Cmp(ref.Cmax) > 0 {
			xc.Quo(xc, ref.Ten)
			d++
		}
		E := r.Range(-1900, 1900)
		if r.Chance(3, 4) {
			E = r.Range(-30, 30)
		}
		j.sh.Cell("gen/root-targeted")
		j.judge(ref.Encode(neg && cube, xc, gen.ClampExp(k*E+d)), cube, nil, 0)
	default: // every exponent class x coefficient shapes
		c, _ := r.Coef()
		if c.Sign() == 0 {
			c = big.NewInt(7)
		}
		cube := r.Bool()
		j.judge(ref.Encode(neg && cube, c, r.Range(ref.MinExp, ref.MaxExp)), cube, nil, 0)
	}
}

func runC17(c *Ctx) {
	c.Parallel("roots", ref.NearestEven, func(sh *mon.Shard, r *gen.RNG) {
		j := &rootJudge{ctx: c, sh: sh}
		n := c.N(60000, 600000)
		for i := 0; i < n; i++ {
			j.genAndJudge(r, i)
		}
		// systematic sweep of the leading significand 1.00000 .. 9.99999 (internal scaling thresholds of the
		// iteration depend on the leading digits only); exponent class, sign and low digits vary per case
		step := c.Stride(1, 1)
		k := 0
		for v := 100000; v <= 999999; v += step {
			k++
			if k%c.Shards != sh.ID {
				continue
			}
			// the exact six-digit significand (in a cohort member with 0, 3, 10 or 28 trailing zeros) ...
			cc := big.NewInt(int64(v))
			pad := r.Pick(0, 0, 3, 10, 28)
			cc.Mul(cc, ref.Pow10(pad))
			e := r.Pick(r.Range(-40, 40), r.Range(ref.MinExp+3, ref.MaxExp-37))
			j.sh.Cell("sweep/significand")
			// ... in every exponent class of each root: the internal scaling differs with the class
			for d := 0; d < 3; d++ {
				j.judge(ref.Encode(r.Bool(), cc, e+d), true, nil, 0)
			}
			for d := 0; d < 2; d++ {
				j.judge(ref.Encode(false, cc, e+d), false, nil, 0)
			}
			if k/c.Shards%4 == 0 {
				// ... and now and then a value inside the cell [v, v+1) * 1e-5
				c2 := new(big.Int).Mul(big.NewInt(int64(v)), ref.Pow10(28))
				c2.Add(c2, r.BigBelow(ref.Pow10(28)))
				j.judge(ref.Encode(false, c2, e+r.Intn(2)), false, nil, 0)
				j.judge(ref.Encode(r.Bool(), c2, e+r.Intn(3)), true, nil, 0)
			}
		}
	})
	// the other five default modes: ToNearestAway must meet the same bound as ToNearestEven (a root is never an exact
	// tie unless it is exact), the four directed modes the adjacency bound
	for def := ref.Mode(1); def < ref.NumModes; def++ {
		c.Parallel("roots-default-mode", def, func(sh *mon.Shard, r *gen.RNG) {
			j := &rootJudge{ctx: c, sh: sh}
			n := c.N(6000, 60000)
			for i := 0; i < n; i++ {
				j.genAndJudge(r, i)
			}
		})
	}
	c.Col.Res.Targets = append(c.Col.Res.Targets,
		mon.Target{Prefix: "directed-default/", Total: 9, Min: 8},
		mon.Target{Prefix: "Sqrt/", Total: 30, Min: 8},
		mon.Target{Prefix: "Cbrt/", Total: 8, Min: 8},
		mon.Target{Prefix: "special/", Total: 3, Min: 3},
	)
}

func replayC17(c *Ctx, sh *mon.Shard, cs *mon.Case) {
	j := &rootJudge{ctx: c, sh: sh}
	x, _ := ref.ParseHex(cs.X[0])
	j.judge(x, cs.Op == "Cbrt", nil, 0)
}
