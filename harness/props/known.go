package props

import (
	"encoding/json"
	"fmt"
	"math"
	"os"

	"verifharness/mon"
	"verifharness/ref"
)

// Finding is one entry of /verif/known_findings.json. Only entries with
// status "open" can downgrade a violation, and only when property, operation,
// discrepancy kind and the argument predicate all match.
type Finding struct {
	ID          string         `json:"id"`
	Property    string         `json:"property"`
	Status      string         `json:"status"` // open | fixed
	Commit      string         `json:"commit,omitempty"`
	Ops         []string       `json:"ops,omitempty"`
	Kinds       []string       `json:"kinds,omitempty"`
	Predicate   string         `json:"predicate,omitempty"`
	Params      map[string]any `json:"params,omitempty"`
	What        string         `json:"what"`
	Witness     *mon.Case      `json:"witness,omitempty"`
	Description string         `json:"description,omitempty"`
}

type findingsFile struct {
	Findings []Finding `json:"findings"`
}

// predicates decide whether a violation's arguments fall inside a known
// finding's (narrow) argument set.
var predicates = map[string]func(v *mon.Violation, f *Finding) bool{
	// the first Decimal operand is finite, non-zero, negative, and the decimal
	// exponent of its leading digit is at most params.lead_max
	"neg_operand_lead_le": func(v *mon.Violation, f *Finding) bool {
		n, ok := operand(&v.Case, 0)
		lm, ok2 := f.Params["lead_max"].(float64)
		return ok && ok2 && n.Class == ref.Finite && !n.IsZero() && n.Neg && ref.NumDigits(n.Coef)-1+n.Exp <= int(lm)
	},
	// Expm1 cancellation (R18): the operand is negative with |x| < 1; with
	// |x| ~ 10^-k the 57-digit subtraction 1/(1+a) - 1 keeps 57-k digits, an
	// error of about 10^(k-23) units in the last place. For k >= 22 nothing
	// is guaranteed; for smaller k only an excess of at most 10^(k-22) units
	// over the tolerance (which can only show under directed modes) matches.
	"expm1_negative_cancellation": func(v *mon.Violation, f *Finding) bool {
		n, ok := operand(&v.Case, 0)
		if !ok || n.Class != ref.Finite || n.IsZero() || !n.Neg {
			return false
		}
		k := -(ref.NumDigits(n.Coef) - 1 + n.Exp)
		if k >= 22 {
			return true
		}
		if v.Kind != "accuracy" || k < 1 || v.Metric <= 0 {
			return false
		}
		return v.Metric <= math.Pow(10, float64(k-22))
	},
	// the first Decimal operand is finite, non-zero, and the decimal exponent
	// of its leading digit is at most params.lead_max
	"operand_lead_le": func(v *mon.Violation, f *Finding) bool {
		n, ok := operand(&v.Case, 0)
		lm, ok2 := f.Params["lead_max"].(float64)
		return ok && ok2 && n.Class == ref.Finite && !n.IsZero() && ref.NumDigits(n.Coef)-1+n.Exp <= int(lm)
	},
	// the call ran under a directed DefaultRoundingMode and the error exceeds
	// the tolerance by at most params.max_excess (in units of the tolerance)
	"directed_mode_small_excess": func(v *mon.Violation, f *Finding) bool {
		me, ok := f.Params["max_excess"].(float64)
		return ok && v.Case.Def >= 2 && v.Case.Def <= 5 && v.Metric > 0 && v.Metric <= me
	},
	// the rounding mode in effect (explicit mode argument, else DefaultRoundingMode) is a directed one and the
	// error exceeds the tolerance by at most params.max_excess (in units of the tolerance)
	"directed_rounding_small_excess": func(v *mon.Violation, f *Finding) bool {
		me, ok := f.Params["max_excess"].(float64)
		m := v.Case.Mode
		if m < 0 {
			m = v.Case.Def
		}
		return ok && m >= 2 && m <= 5 && v.Metric > 0 && v.Metric <= me
	},
	// the first Decimal operand is a negative zero (any exponent)
	"operand0_is_negative_zero": func(v *mon.Violation, f *Finding) bool {
		n, ok := operand(&v.Case, 0)
		return ok && n.IsZero() && n.Neg
	},
}

// runWitnesses re-judges the recorded witness case of every open finding of
// this property, so that a listed finding is observed (and reported as
// KNOWN-FINDING) on every run as long as it still reproduces.
func runWitnesses(ctx *Ctx, p *Prop) {
	fs, err := loadFindings()
	if err != nil || p.Replay == nil {
		return
	}
	sh := mon.NewShard(0, "witness")
	for i := range fs {
		f := &fs[i]
		if f.Status != "open" || f.Property != ctx.Prop || f.Witness == nil {
			continue
		}
		cs := *f.Witness
		cs.Prop = ctx.Prop
		setDefault(cs.Def)
		p.Replay(ctx, sh, &cs)
		setDefault(0)
	}
	ctx.Col.Merge(sh)
}

func loadFindings() ([]Finding, error) {
	path := os.Getenv("VERIF_KNOWN")
	if path == "" {
		return nil, nil
	}
	b, err := os.ReadFile(path)
	if err != nil {
		if os.IsNotExist(err) {
			return nil, nil
		}
		return nil, err
	}
	var ff findingsFile
	if err := json.Unmarshal(b, &ff); err != nil {
		return nil, fmt.Errorf("known findings: %w", err)
	}
	return ff.Findings, nil
}

func contains(xs []string, s string) bool {
	for _, x := range xs {
		if x == s {
			return true
		}
	}
	return false
}

// installClassifier loads the committed findings and installs the matcher
// that Shard.Violate consults.
func installClassifier(prop string) error {
	fs, err := loadFindings()
	if err != nil {
		return err
	}
	var open []Finding
	for _, f := range fs {
		if f.Status == "open" && f.Property == prop {
			open = append(open, f)
		}
	}
	mon.Classifier = func(v *mon.Violation) string {
		for j := range open {
			f := &open[j]
			if len(f.Ops) > 0 && !contains(f.Ops, v.Case.Op) {
				continue
			}
			if len(f.Kinds) > 0 && !contains(f.Kinds, v.Kind) {
				continue
			}
			p, ok := predicates[f.Predicate]
			if !ok {
				continue // unknown predicate matches nothing
			}
			if p(v, f) {
				return f.ID
			}
		}
		return ""
	}
	return nil
}

// operand decodes the i-th Decimal operand of a case.
func operand(c *mon.Case, i int) (ref.Num, bool) {
	if i >= len(c.X) {
		return ref.Num{}, false
	}
	b, err := ref.ParseHex(c.X[i])
	if err != nil {
		return ref.Num{}, false
	}
	return ref.Decode(b), true
}

func replay(ctx *Ctx, p *Prop, path string) int {
	b, err := os.ReadFile(path)
	if err != nil {
		fmt.Fprintln(os.Stderr, "replay:", err)
		return 5
	}
	var v mon.Violation
	if err := json.Unmarshal(b, &v); err != nil {
		fmt.Fprintln(os.Stderr, "replay:", err)
		return 5
	}
	if p.Replay == nil {
		fmt.Fprintln(os.Stderr, "replay: property has no replay function")
		return 5
	}
	sh := mon.NewShard(0, "replay")
	cs := v.Case
	setDefault(cs.Def)
	p.Replay(ctx, sh, &cs)
	setDefault(0)
	fmt.Printf("REPLAY property=%s op=%s x=%v n=%v mode=%d def=%d\n", cs.Prop, cs.Op, cs.X, cs.N, cs.Mode, cs.Def)
	for _, s := range cs.S {
		if len(s) > 200 {
			s = s[:200] + fmt.Sprintf("...(%d bytes)", len(s))
		}
		fmt.Printf("  s=%q\n", s)
	}
	if len(sh.Viol) == 0 {
		fmt.Println("REPLAY-RESULT: no violation (the recorded case now passes)")
		return 0
	}
	for _, w := range sh.Viol {
		fmt.Printf("REPLAY-RESULT: violated kind=%s\n  want: %s\n  got:  %s\n  %s\n", w.Kind, w.Want, w.Got, w.Detail)
	}
	return 1
}
