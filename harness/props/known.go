package props

import (
	"encoding/json"
	"fmt"
	"os"

	"verifharness/mon"
	"verifharness/ref"
)

// Finding is one entry of /verif/known_findings.json. Only entries with
// status "open" can downgrade a violation, and only when property, operation,
// discrepancy kind and the argument predicate all match.
type Finding struct {
	ID          string         `json:"id"`
	Property    string         `json:"property"`
	Status      string         `json:"status"` // open | fixed
	Commit      string         `json:"commit,omitempty"`
	Ops         []string       `json:"ops,omitempty"`
	Kinds       []string       `json:"kinds,omitempty"`
	Predicate   string         `json:"predicate,omitempty"`
	Params      map[string]any `json:"params,omitempty"`
	What        string         `json:"what"`
	Witness     *mon.Case      `json:"witness,omitempty"`
	Description string         `json:"description,omitempty"`
}

type findingsFile struct {
	Findings []Finding `json:"findings"`
}

// predicates decide whether a violation's arguments fall inside a known
// finding's (narrow) argument set.
var predicates = map[string]func(v *mon.Violation, f *Finding) bool{
	// the first Decimal operand is a negative zero (any exponent)
	"operand0_is_negative_zero": func(v *mon.Violation, f *Finding) bool {
		n, ok := operand(&v.Case, 0)
		return ok && n.IsZero() && n.Neg
	},
}

// runWitnesses re-judges the recorded witness case of every open finding of
// this property, so that a listed finding is observed (and reported as
// KNOWN-FINDING) on every run as long as it still reproduces.
func runWitnesses(ctx *Ctx, p *Prop) {
	fs, err := loadFindings()
	if err != nil || p.Replay == nil {
		return
	}
	sh := mon.NewShard(0, "witness")
	for i := range fs {
		f := &fs[i]
		if f.Status != "open" || f.Property != ctx.Prop || f.Witness == nil {
			continue
		}
		cs := *f.Witness
		cs.Prop = ctx.Prop
		setDefault(cs.Def)
		p.Replay(ctx, sh, &cs)
		setDefault(0)
	}
	ctx.Col.Merge(sh)
}

func loadFindings() ([]Finding, error) {
	path := os.Getenv("VERIF_KNOWN")
	if path == "" {
		return nil, nil
	}
	b, err := os.ReadFile(path)
	if err != nil {
		if os.IsNotExist(err) {
			return nil, nil
		}
		return nil, err
	}
	var ff findingsFile
	if err := json.Unmarshal(b, &ff); err != nil {
		return nil, fmt.Errorf("known findings: %w", err)
	}
	return ff.Findings, nil
}

func contains(xs []string, s string) bool {
	for _, x := range xs {
		if x == s {
			return true
		}
	}
	return false
}

func markKnown(res *mon.Result) {
	fs, err := loadFindings()
	if err != nil {
		res.Internal = err.Error()
		return
	}
	for i := range res.Violations {
		v := &res.Violations[i]
		for j := range fs {
			f := &fs[j]
			if f.Status != "open" || f.Property != res.Prop {
				continue
			}
			if len(f.Ops) > 0 && !contains(f.Ops, v.Case.Op) {
				continue
			}
			if len(f.Kinds) > 0 && !contains(f.Kinds, v.Kind) {
				continue
			}
			p, ok := predicates[f.Predicate]
			if !ok {
				continue // unknown predicate matches nothing
			}
			if p(v, f) {
				v.Known = f.ID
				break
			}
		}
	}
}

// operand decodes the i-th Decimal operand of a case.
func operand(c *mon.Case, i int) (ref.Num, bool) {
	if i >= len(c.X) {
		return ref.Num{}, false
	}
	b, err := ref.ParseHex(c.X[i])
	if err != nil {
		return ref.Num{}, false
	}
	return ref.Decode(b), true
}

func replay(ctx *Ctx, p *Prop, path string) int {
	b, err := os.ReadFile(path)
	if err != nil {
		fmt.Fprintln(os.Stderr, "replay:", err)
		return 5
	}
	var v mon.Violation
	if err := json.Unmarshal(b, &v); err != nil {
		fmt.Fprintln(os.Stderr, "replay:", err)
		return 5
	}
	if p.Replay == nil {
		fmt.Fprintln(os.Stderr, "replay: property has no replay function")
		return 5
	}
	sh := mon.NewShard(0, "replay")
	cs := v.Case
	setDefault(cs.Def)
	p.Replay(ctx, sh, &cs)
	setDefault(0)
	fmt.Printf("REPLAY property=%s op=%s x=%v n=%v mode=%d def=%d\n", cs.Prop, cs.Op, cs.X, cs.N, cs.Mode, cs.Def)
	for _, s := range cs.S {
		if len(s) > 200 {
			s = s[:200] + fmt.Sprintf("...(%d bytes)", len(s))
		}
		fmt.Printf("  s=%q\n", s)
	}
	if len(sh.Viol) == 0 {
		fmt.Println("REPLAY-RESULT: no violation (the recorded case now passes)")
		return 0
	}
	for _, w := range sh.Viol {
		fmt.Printf("REPLAY-RESULT: violated kind=%s\n  want: %s\n  got:  %s\n  %s\n", w.Kind, w.Want, w.Got, w.Detail)
	}
	return 1
}
