package props

import (
	"fmt"
	"math/big"
	"sort"

	"github.com/woodsbury/decimal128"

	"verifharness/gen"
	"verifharness/mon"
	"verifharness/ref"
)

func init() {
	register(&Prop{
		ID: "C04",
		Rule: "pairs built on the grid digit-length(x) 1..35 x digit-length(y) 1..35 x exponent gap -40..40 with relations {equal value in another cohort member, +/-1 unit in x's or y's last place, truncated copy, random}, " +
			"plus specials, garbage-bit encodings, zeros of any exponent, random bit patterns; triples for transitivity and 64-element sorts with Compare. " +
			"Every pair is judged for Cmp (both orders), CmpAbs, Equal, Compare, Min, Max, and each operand for IsZero and Sign. Oracle: exact order of the decoded rationals. " +
			"non-trivial = both operands finite non-zero of the same sign whose adjusted exponents differ by at most 1 (the digits decide), or a NaN/zero-sign case; distinct = distinct (x,y).",
		Run:    runC04,
		Replay: replayC04,
		Assume: []string{"harness BID decoder and big.Int arithmetic are correct"},
		Cover:  []string{"Decimal.Cmp", "Decimal.CmpAbs", "Decimal.Equal", "Compare", "Min", "Max", "Decimal.IsZero", "Decimal.Sign"},
	})
}

// refCmpAbs compares magnitudes of two finite numbers exactly.
func refCmpAbs(a, b ref.Num) int {
	az, bz := a.Coef.Sign() == 0, b.Coef.Sign() == 0
	switch {
	case az && bz:
		return 0
	case az:
		return -1
	case bz:
		return 1
	}
	da, db := ref.NumDigits(a.Coef)+a.Exp, ref.NumDigits(b.Coef)+b.Exp
	if da != db {
		if da < db {
			return -1
		}
		return 1
	}
	if a.Exp == b.Exp {
		return a.Coef.Cmp(b.Coef)
	}
	if a.Exp > b.Exp {
		t := new(big.Int).Mul(a.Coef, ref.Pow10(a.Exp-b.Exp))
		return t.Cmp(b.Coef)
	}
	t := new(big.Int).Mul(b.Coef, ref.Pow10(b.Exp-a.Exp))
	return a.Coef.Cmp(t)
}

// refCmp: exact order, NaN excluded. -Inf < finite < +Inf, -0 == +0.
func refCmp(a, b ref.Num) int {
	rank := func(n ref.Num) int {
		if n.Class == ref.Inf {
			if n.Neg {
				return -2
			}
			return 2
		}
		return 0
	}
	ra, rb := rank(a), rank(b)
	if ra != 0 || rb != 0 {
		switch {
		case ra < rb:
			return -1
		case ra > rb:
			return 1
		}
		return 0
	}
	sa, sb := 1, 1
	if a.IsZero() {
		sa = 0
	} else if a.Neg {
		sa = -1
	}
	if b.IsZero() {
		sb = 0
	} else if b.Neg {
		sb = -1
	}
	if sa != sb {
		if sa < sb {
			return -1
		}
		return 1
	}
	if sa == 0 {
		return 0
	}
	c := refCmpAbs(a, b)
	if sa < 0 {
		c = -c
	}
	return c
}

func refCmpAbsAny(a, b ref.Num) int {
	a.Neg, b.Neg = false, false
	return refCmp(a, b)
}

type cmpJudge struct {
	ctx *Ctx
	sh  *mon.Shard
}

func cmpResultString(c decimal128.CmpResult) string {
	return fmt.Sprintf("CmpResult(%d){Less:%v Equal:%v Greater:%v}", int8(c), c.Less(), c.Equal(), c.Greater())
}

// checkCmpResult verifies that a CmpResult expresses exactly the order want
// (-1,0,1) or "unordered" (want = 2).
func checkCmpResult(c decimal128.CmpResult, want int) bool {
	l, e, g := c.Less(), c.Equal(), c.Greater()
	le, ge := c.LessOrEqual(), c.GreaterOrEqual()
	switch want {
	case -1:
		return l && !e && !g && le && !ge && int(c) == -1
	case 0:
		return !l && e && !g && le && ge && int(c) == 0
	case 1:
		return !l && !e && g && !le && ge && int(c) == 1
	}
	return !l && !e && !g && !le && !ge
}

func (j *cmpJudge) judgePair(x, y ref.Bits, only string) {
	xn, yn := ref.Decode(x), ref.Decode(y)
	dx, dy := toD(x), toD(y)
	anyNaN := xn.Class == ref.NaN || yn.Class == ref.NaN
	want, wantAbs := 2, 2
	if !anyNaN {
		want = refCmp(xn, yn)
		wantAbs = refCmpAbsAny(xn, yn)
	}
	nontriv := anyNaN
	if !anyNaN && xn.Class == ref.Finite && yn.Class == ref.Finite {
		if xn.IsZero() && yn.IsZero() {
			nontriv = xn.Neg != yn.Neg
		} else if !xn.IsZero() && !yn.IsZero() {
			d := ref.NumDigits(xn.Coef) + xn.Exp - ref.NumDigits(yn.Coef) - yn.Exp
			nontriv = d >= -1 && d <= 1
			// grid cells as classified by the oracle
			nx, ny := ref.NumDigits(xn.Coef), ref.NumDigits(yn.Coef)
			j.sh.Cell(fmt.Sprintf("len/%d/%d", nx, ny))
			g := xn.Exp - yn.Exp
			if g >= -40 && g <= 40 {
				j.sh.Cell(fmt.Sprintf("gaprel/%d/%d", g, wantAbs))
			}
			if wantAbs == 0 && xn.Exp != yn.Exp {
				j.sh.Cell("equal-value-different-cohort")
			}
			if d == 0 && wantAbs != 0 && (nx >= 34 || ny >= 34) {
				j.sh.Cell("differ-with-34/35-digit-operand")
			}
		}
	}
	mk := func(op string) *mon.Case {
		c := j.ctx.NewCase(j.sh, op)
		c.X = []string{x.Hex(), y.Hex()}
		return c
	}
	run := func(op string, f func() (bool, string, string)) {
		if only != "" && only != op {
			return
		}
		var ok bool
		var wantS, gotS string
		pv, pan := try(func() { ok, wantS, gotS = f() })
		j.sh.Eval(hash2(op, x.Hi, x.Lo, y.Hi, y.Lo), nontriv)
		if pan {
			j.sh.Violate(mk(op), "panic", "no panic", fmt.Sprint(pv), "")
			return
		}
		if !ok {
			j.sh.Violate(mk(op), "order", wantS, gotS, fmt.Sprintf("x=%v y=%v", xn, yn))
		}
	}
	ordS := func(w int) string {
		if w == 2 {
			return "unordered (NaN)"
		}
		return fmt.Sprintf("%d", w)
	}
	run("Cmp", func() (bool, string, string) {
		c := dx.Cmp(dy)
		return checkCmpResult(c, want), ordS(want), cmpResultString(c)
	})
	run("CmpRev", func() (bool, string, string) {
		c := dy.Cmp(dx)
		w := want
		if w != 2 {
			w = -w
		}
		return checkCmpResult(c, w), ordS(w) + " (antisymmetry)", cmpResultString(c)
	})
	run("CmpAbs", func() (bool, string, string) {
		c := dx.CmpAbs(dy)
		c2 := decimal128.Abs(dx).Cmp(decimal128.Abs(dy))
		return checkCmpResult(c, wantAbs) && checkCmpResult(c2, wantAbs), ordS(wantAbs), cmpResultString(c) + " / Cmp(|x|,|y|)=" + cmpResultString(c2)
	})
	run("Equal", func() (bool, string, string) {
		e := dx.Equal(dy)
		e2 := dy.Equal(dx)
		w := want == 0
		return e == w && e2 == w, fmt.Sprint(w), fmt.Sprintf("%v / reversed %v", e, e2)
	})
	run("Compare", func() (bool, string, string) {
		c := decimal128.Compare(dx, dy)
		var w int
		switch {
		case xn.Class == ref.NaN && yn.Class == ref.NaN:
			w = 0
		case xn.Class == ref.NaN:
			w = -1
		case yn.Class == ref.NaN:
			w = 1
		default:
			w = want
		}
		return c == w, fmt.Sprint(w), fmt.Sprint(c)
	})
	minmax := func(op string, isMin bool) {
		run(op, func() (bool, string, string) {
			var r D
			if isMin {
				r = decimal128.Min(dx, dy)
			} else {
				r = decimal128.Max(dx, dy)
			}
			rb := toB(r)
			rn := ref.Decode(rb)
			if anyNaN {
				ok := rn.Class == ref.NaN && ((xn.Class == ref.NaN && rb == x) || (yn.Class == ref.NaN && rb == y))
				return ok, "one of the NaN operands", rn.String()
			}
			// exact extremum; -0 below +0
			w := xn
			c := want
			if c == 0 && xn.IsZero() && yn.IsZero() {
				// order zeros by sign
				switch {
				case xn.Neg == yn.Neg:
				case xn.Neg:
					c = -1
				default:
					c = 1
				}
			}
			if (isMin && c > 0) || (!isMin && c < 0) {
				w = yn
			}
			ok := rn.Class == w.Class && rn.Neg == w.Neg
			if ok && w.Class == ref.Finite {
				ok = ref.SameValue(rn.Coef, rn.Exp, w.Coef, w.Exp)
			}
			return ok, w.String(), rn.String()
		})
	}
	minmax("Min", true)
	minmax("Max", false)
	for _, side := range []struct {
		d D
		n ref.Num
	}{{dx, xn}, {dy, yn}} {
		d, n := side.d, side.n
		run("IsZero", func() (bool, string, string) {
			w := n.IsZero()
			g := d.IsZero()
			return g == w, fmt.Sprint(w), fmt.Sprint(g)
		})
		run("Sign", func() (bool, string, string) {
			var g int
			pv, pan := try(func() { g = d.Sign() })
			if n.Class == ref.NaN {
				return pan, "panic (documented)", fmt.Sprintf("returned %d", g)
			}
			if pan {
				return false, "no panic", fmt.Sprint(pv)
			}
			w := 1
			if n.IsZero() {
				w = 0
			} else if n.Neg {
				w = -1
			}
			return g == w, fmt.Sprint(w), fmt.Sprint(g)
		})
	}
	if nontriv && j.sh.Evals%200000 < 12 {
		j.sh.Sample(mk("Cmp"))
	}
}

// gridPair constructs a pair in the (nx, ny, gap) grid with a chosen relation.
func gridPair(r *gen.RNG, nx, ny, gap int) (ref.Bits, ref.Bits) {
	e := r.Range(-3000, 3000)
	sx := r.Bool()
	sy := sx
	if r.Chance(1, 6) {
		sy = !sx
	}
	cx := r.Digits(nx)
	if cx.Cmp(ref.Cmax) > 0 {
		cx.Mod(cx, ref.CmaxP1)
	}
	x := ref.Encode(sx, cx, e)
	ey := e - gap
	var cy *big.Int
	rel := r.Intn(7)
	switch rel {
	case 0: // random of the requested length
		cy = r.Digits(ny)
	default:
		// y's coefficient derived from x's value at y's exponent
		if gap >= 0 {
			cy = new(big.Int).Mul(cx, ref.Pow10(gap))
		} else {
			cy = new(big.Int).Quo(cx, ref.Pow10(-gap))
		}
		switch rel {
		case 1: // same value if it fits (or truncated copy)
		case 2:
			cy.Add(cy, ref.One)
		case 3:
			cy.Sub(cy, ref.One)
		case 4: // +/- one unit of x's last place expressed in y's units
			if gap >= 0 {
				u := ref.Pow10(gap)
				if r.Bool() {
					cy.Add(cy, u)
				} else {
					cy.Sub(cy, u)
				}
			} else {
				cy.Add(cy, big.NewInt(int64(r.Range(-2, 2))))
			}
		case 5: // differ deep inside
			cy.Add(cy, r.BigBelow(ref.Pow10(r.Range(1, 34))))
		case 6: // differ in exactly one digit position (zeros below it)
			d := new(big.Int).Mul(big.NewInt(int64(r.Range(1, 9))), ref.Pow10(r.Intn(34)))
			if r.Bool() {
				cy.Add(cy, d)
			} else {
				cy.Sub(cy, d)
			}
		}
	}
	if cy.Sign() < 0 {
		cy.Neg(cy)
	}
	if cy.Cmp(ref.Cmax) > 0 {
		// cannot express at this gap: fall back to a random coefficient
		cy = r.Digits(ny)
		if cy.Cmp(ref.Cmax) > 0 {
			cy.Mod(cy, ref.CmaxP1)
		}
	}
	y := ref.Encode(sy, cy, ey)
	if r.Bool() {
		return y, x
	}
	return x, y
}

func (j *cmpJudge) triple(r *gen.RNG) {
	// three values close to each other
	base := r.Finite()
	bn := ref.Decode(base)
	vals := []ref.Bits{base}
	for len(vals) < 3 {
		switch r.Intn(4) {
		case 0:
			if alt, ok := r.CohortMember(bn); ok {
				vals = append(vals, alt)
				continue
			}
			fallthrough
		case 1:
			c := new(big.Int).Add(bn.Coef, big.NewInt(int64(r.Range(-2, 2))))
			if c.Sign() < 0 || c.Cmp(ref.Cmax) > 0 {
				c = bn.Coef
			}
			vals = append(vals, ref.Encode(bn.Neg, c, bn.Exp))
		case 2:
			vals = append(vals, r.AnyBits())
		default:
			vals = append(vals, r.FiniteNear(bn.Exp, r.Range(-36, 36)))
		}
	}
	d := []D{toD(vals[0]), toD(vals[1]), toD(vals[2])}
	var c01, c12, c02 decimal128.CmpResult
	pv, pan := try(func() {
		c01, c12, c02 = d[0].Cmp(d[1]), d[1].Cmp(d[2]), d[0].Cmp(d[2])
	})
	mk := func() *mon.Case {
		c := j.ctx.NewCase(j.sh, "CmpTransitive")
		c.X = []string{vals[0].Hex(), vals[1].Hex(), vals[2].Hex()}
		return c
	}
	j.sh.Eval(hash2("tri", vals[0].Hi, vals[0].Lo, vals[1].Hi, vals[1].Lo, vals[2].Hi, vals[2].Lo), true)
	j.sh.Cell("triples")
	if pan {
		j.sh.Violate(mk(), "panic", "no panic", fmt.Sprint(pv), "")
		return
	}
	if c01.LessOrEqual() && c12.LessOrEqual() {
		strict := c01.Less() || c12.Less()
		if !c02.LessOrEqual() || (strict && !c02.Less()) {
			j.sh.Violate(mk(), "transitivity", "x<=y, y<=z => x<=z", fmt.Sprintf("%d %d %d", c01, c12, c02), "")
		}
	}
	if c01.GreaterOrEqual() && c12.GreaterOrEqual() {
		strict := c01.Greater() || c12.Greater()
		if !c02.GreaterOrEqual() || (strict && !c02.Greater()) {
			j.sh.Violate(mk(), "transitivity", "x>=y, y>=z => x>=z", fmt.Sprintf("%d %d %d", c01, c12, c02), "")
		}
	}
	// also judge each pair exactly
	j.judgePair(vals[0], vals[1], "")
	j.judgePair(vals[1], vals[2], "")
	j.judgePair(vals[0], vals[2], "")
}

func (j *cmpJudge) sortCheck(r *gen.RNG) {
	n := 64
	bs := make([]ref.Bits, n)
	base := r.Finite()
	bn := ref.Decode(base)
	for i := range bs {
		switch r.Intn(5) {
		case 0:
			bs[i] = r.AnyBits()
		case 1:
			if alt, ok := r.CohortMember(bn); ok {
				bs[i] = alt
			} else {
				bs[i] = base
			}
		default:
			c := new(big.Int).Add(bn.Coef, big.NewInt(int64(r.Range(-5, 5))))
			if c.Sign() < 0 || c.Cmp(ref.Cmax) > 0 {
				c = bn.Coef
			}
			bs[i] = ref.Encode(r.Chance(1, 8) != bn.Neg, c, gen.ClampExp(bn.Exp+r.Pick(0, 0, 0, 1, -1)))
		}
	}
	ds := make([]D, n)
	for i := range bs {
		ds[i] = toD(bs[i])
	}
	pv, pan := try(func() {
		sort.SliceStable(ds, func(a, b int) bool { return decimal128.Compare(ds[a], ds[b]) < 0 })
	})
	mk := func() *mon.Case {
		c := j.ctx.NewCase(j.sh, "CompareSort")
		for _, b := range bs {
			c.X = append(c.X, b.Hex())
		}
		return c
	}
	j.sh.Eval(hash2("sort", bs[0].Hi, bs[0].Lo, bs[1].Hi, bs[1].Lo, bs[63].Lo), true)
	j.sh.Cell("sorts")
	if pan {
		j.sh.Violate(mk(), "panic", "no panic", fmt.Sprint(pv), "")
		return
	}
	for i := 1; i < n; i++ {
		a, b := num(ds[i-1]), num(ds[i])
		bad := false
		switch {
		case a.Class == ref.NaN:
		case b.Class == ref.NaN:
			bad = true // NaN must come first
		default:
			bad = refCmp(a, b) > 0
		}
		if bad {
			j.sh.Violate(mk(), "sort-order", "non-decreasing with NaN first", fmt.Sprintf("position %d: %v before %v", i, a, b), "")
			return
		}
	}
}

func runC04(c *Ctx) {
	c.Parallel("grid", ref.NearestEven, func(sh *mon.Shard, r *gen.RNG) {
		j := &cmpJudge{ctx: c, sh: sh}
		// the full (nx, ny, gap) grid is split over the shards; each shard walks
		// its share, repeated reps times with fresh randomness
		reps := c.N(3, 24)
		for rep := 0; rep < reps; rep++ {
			idx := 0
			for nx := 1; nx <= 35; nx++ {
				for ny := 1; ny <= 35; ny++ {
					for gap := -40; gap <= 40; gap++ {
						idx++
						if idx%c.Shards != sh.ID {
							continue
						}
						x, y := gridPair(r, nx, ny, gap)
						j.judgePair(x, y, "")
					}
				}
			}
		}
	})
	c.Parallel("mixed", ref.NearestEven, func(sh *mon.Shard, r *gen.RNG) {
		j := &cmpJudge{ctx: c, sh: sh}
		n := c.N(100000, 800000)
		for i := 0; i < n; i++ {
			switch i % 8 {
			case 0:
				j.judgePair(r.AnyBits(), r.AnyBits(), "")
			case 1:
				x := r.Finite()
				y, _ := r.CohortMember(ref.Decode(x))
				if r.Chance(1, 4) {
					y.Hi ^= 1 << 63
				}
				j.judgePair(x, y, "")
			case 2:
				x := r.Finite()
				j.judgePair(x, r.FiniteNear(ref.Decode(x).Exp, r.Gap()), "")
			case 3:
				if i%64 == 3 {
					j.sortCheck(r)
				} else {
					j.triple(r)
				}
			case 4:
				// word images: y is built from one machine word (or decimal chunk) of x's coefficient, written in a
				// finer cohort position, so that a comparison which looks at only part of a multi-word coefficient
				// sees equal operands: (cx mod 2^64)*10^g, (cx >> 64)*10^g, (cx mod 10^19)*10^g, floor(cx/10^19)*10^g
				cx, _ := r.Coef()
				if cx.BitLen() <= 64 || r.Chance(1, 3) {
					cx = new(big.Int).Lsh(new(big.Int).SetUint64(r.U64()>>uint(r.Range(15, 63))), 64)
					cx.Or(cx, new(big.Int).SetUint64(r.U64()>>uint(r.Intn(60))))
					if cx.Cmp(ref.Cmax) > 0 {
						cx.Rsh(cx, 20)
					}
				}
				var img *big.Int
				two64 := new(big.Int).Lsh(ref.One, 64)
				switch r.Intn(4) {
				case 0:
					img = new(big.Int).Mod(cx, two64)
				case 1:
					img = new(big.Int).Rsh(cx, 64)
				case 2:
					img = new(big.Int).Mod(cx, ref.Pow10(19))
				default:
					img = new(big.Int).Quo(cx, ref.Pow10(19))
				}
				if img.Sign() == 0 {
					img.SetInt64(1)
				}
				g := r.Range(0, 34)
				for g > 0 && new(big.Int).Mul(img, ref.Pow10(g)).Cmp(ref.Cmax) > 0 {
					g--
				}
				ex := r.Range(-60, 60)
				neg := r.Bool()
				x := ref.Encode(neg, cx, ex)
				y := ref.Encode(neg != r.Chance(1, 8), new(big.Int).Mul(img, ref.Pow10(g)), ex-g)
				j.sh.Cell("rel/word-image")
				if r.Bool() {
					x, y = y, x
				}
				j.judgePair(x, y, "")
			default:
				x, y := gridPair(r, r.Range(1, 35), r.Range(1, 35), r.Pick(0, 1, -1, 18, 19, 20, 26, 27, 28, 34, 35, 36, -19, -27, -35, r.Range(-40, 40)))
				j.judgePair(x, y, "")
			}
		}
	})
	c.Col.Res.Targets = append(c.Col.Res.Targets,
		mon.Target{Prefix: "len/", Total: 1225, Min: 1200},
		mon.Target{Prefix: "gaprel/", Total: 231, Min: 205},
	)
}

func replayC04(c *Ctx, sh *mon.Shard, cs *mon.Case) {
	j := &cmpJudge{ctx: c, sh: sh}
	if len(cs.X) == 2 {
		x, _ := ref.ParseHex(cs.X[0])
		y, _ := ref.ParseHex(cs.X[1])
		j.judgePair(x, y, cs.Op)
		return
	}
	// triples / sorts: re-judge all pairs
	var bs []ref.Bits
	for _, h := range cs.X {
		b, _ := ref.ParseHex(h)
		bs = append(bs, b)
	}
	for i := range bs {
		for k := i + 1; k < len(bs); k++ {
			j.judgePair(bs[i], bs[k], "")
		}
	}
}
