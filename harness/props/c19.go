package props

import (
	"encoding/json"
	"fmt"
	"math"
	"math/big"
	"strings"

	"github.com/woodsbury/decimal128"

	"verifharness/gen"
	"verifharness/mon"
	"verifharness/ref"
)

func init() {
	register(&Prop{
		ID: "C19",
		Rule: "operand sets built from values with 1..6 digits (>= 30 cohort members), 20, 33, 34 digits (2..15 members) and zeros of every exponent; every operand is paired with a random and with the extreme members of its cohort; " +
			"each exported operation (arithmetic in 6 modes, QuoRem, Pow, comparisons, Min/Max, elementary functions, rounding, conversions, formatting, text/JSON/SQL encodings, Frexp/Ldexp) is run on both encodings and the value-level signatures of the results are compared. " +
			"Canonical is judged against an enumeration of the cohort (value, sign, idempotence, identical bits iff equal value and sign, exponent closest to zero, NaN/Inf normal forms). non-trivial = the two encodings differ; distinct = distinct (operation, operand bits).",
		Run:    runC19,
		Replay: replayC19,
		Assume: []string{"harness BID decoder and numeral reader are correct"},
		Cover:  []string{"Decimal.Canonical", "Decimal.MulWithMode", "Decimal.QuoWithMode", "Decimal.Cmp", "compose"},
	})
}

// sigOfD is the value-level signature of a Decimal: class, sign, value.
func sigOfD(d D) string {
	n := num(d)
	switch n.Class {
	case ref.NaN:
		return "NaN"
	case ref.Inf:
		if n.Neg {
			return "-Inf"
		}
		return "+Inf"
	}
	s := "+"
	if n.Neg {
		s = "-"
	}
	if n.IsZero() {
		return s + "0"
	}
	c, e := stripped(n)
	return fmt.Sprintf("%s%se%d", s, c.String(), e)
}

// sigOfText reads a produced numeral and returns its value-level signature
// ("NaN"/"+Inf"/"-Inf" pass through; anything unreadable is returned quoted).
func sigOfText(t string) string {
	t = strings.TrimSpace(t)
	numeral, ok := ref.ReadNumeral(t)
	if !ok {
		return "text:" + t
	}
	m, k := numeral.Value()
	s := "+"
	if numeral.SignChar == '-' {
		s = "-"
	}
	if m.Sign() == 0 {
		return s + "0"
	}
	n := ref.Num{Class: ref.Finite, Coef: m, Exp: k}
	c, e := stripped(n)
	return fmt.Sprintf("%s%se%d", s, c.String(), e)
}

type cohortOp struct {
	name  string
	arity int
	f     func(a []D) string
}

func cohortOps() []cohortOp { return cohortOpsWith(sigOfD, sigOfText) }

// cohortOpsWith builds the operation table with the given result signatures
// (value-level for C19, bit-level for the C20 concurrency tables).
func cohortOpsWith(sigOfD func(D) string, sigOfText func(string) string) []cohortOp {
	var ops []cohortOp
	add := func(name string, arity int, f func(a []D) string) { ops = append(ops, cohortOp{name, arity, f}) }
	for m := 0; m < 6; m++ {
		mode := decimal128.RoundingMode(m)
		ms := fmt.Sprintf("/m%d", m)
		add("AddWithMode"+ms, 2, func(a []D) string { return sigOfD(a[0].AddWithMode(a[1], mode)) })
		add("SubWithMode"+ms, 2, func(a []D) string { return sigOfD(a[0].SubWithMode(a[1], mode)) })
		add("MulWithMode"+ms, 2, func(a []D) string { return sigOfD(a[0].MulWithMode(a[1], mode)) })
		add("QuoWithMode"+ms, 2, func(a []D) string { return sigOfD(a[0].QuoWithMode(a[1], mode)) })
		add("QuoRemWithMode"+ms, 2, func(a []D) string {
			q, r := a[0].QuoRemWithMode(a[1], mode)
			return sigOfD(q) + " " + sigOfD(r)
		})
		add("PowWithMode"+ms, 2, func(a []D) string { return sigOfD(a[0].PowWithMode(a[1], mode)) })
		for _, dp := range []int{-2, 0, 1, 3} {
			dp := dp
			add(fmt.Sprintf("Round(%d)%s", dp, ms), 1, func(a []D) string { return sigOfD(a[0].Round(dp, mode)) })
		}
	}
	add("Add", 2, func(a []D) string { return sigOfD(a[0].Add(a[1])) })
	add("Sub", 2, func(a []D) string { return sigOfD(a[0].Sub(a[1])) })
	add("Mul", 2, func(a []D) string { return sigOfD(a[0].Mul(a[1])) })
	add("Quo", 2, func(a []D) string { return sigOfD(a[0].Quo(a[1])) })
	add("QuoRem", 2, func(a []D) string { q, r := a[0].QuoRem(a[1]); return sigOfD(q) + " " + sigOfD(r) })
	add("Pow", 2, func(a []D) string { return sigOfD(a[0].Pow(a[1])) })
	add("Cmp", 2, func(a []D) string { return fmt.Sprint(int8(a[0].Cmp(a[1]))) })
	add("CmpAbs", 2, func(a []D) string { return fmt.Sprint(int8(a[0].CmpAbs(a[1]))) })
	add("Equal", 2, func(a []D) string { return fmt.Sprint(a[0].Equal(a[1])) })
	add("Compare", 2, func(a []D) string { return fmt.Sprint(decimal128.Compare(a[0], a[1])) })
	add("Min", 2, func(a []D) string { return sigOfD(decimal128.Min(a[0], a[1])) })
	add("Max", 2, func(a []D) string { return sigOfD(decimal128.Max(a[0], a[1])) })
	un := func(name string, f func(D) D) { add(name, 1, func(a []D) string { return sigOfD(f(a[0])) }) }
	un("Neg", func(d D) D { return d.Neg() })
	un("Abs", decimal128.Abs)
	un("Canonical", func(d D) D { return d.Canonical() })
	un("Sqrt", decimal128.Sqrt)
	un("Cbrt", decimal128.Cbrt)
	un("Exp", decimal128.Exp)
	un("Exp2", decimal128.Exp2)
	un("Exp10", decimal128.Exp10)
	un("Expm1", decimal128.Expm1)
	un("Log", decimal128.Log)
	un("Log2", decimal128.Log2)
	un("Log10", decimal128.Log10)
	un("Log1p", decimal128.Log1p)
	un("Floor", decimal128.Floor)
	un("Ceil", decimal128.Ceil)
	un("Round", decimal128.Round)
	un("Trunc", decimal128.Trunc)
	for _, dp := range []int{-2, 1, 3} {
		dp := dp
		un(fmt.Sprintf("Ceil(%d)", dp), func(d D) D { return d.Ceil(dp) })
		un(fmt.Sprintf("Floor(%d)", dp), func(d D) D { return d.Floor(dp) })
	}
	for _, k := range []int{-7, 0, 5, 6200, -6200} {
		k := k
		un(fmt.Sprintf("Ldexp(%d)", k), func(d D) D { return decimal128.Ldexp(d, k) })
	}
	// Ldexp aimed at the range ends: the integer argument is derived from the operand's value (its decimal
	// magnitude, the same for every cohort member), so that the result is 10^target times the significand
	for _, target := range []int{6144, 6145, 6110, -6176, -6177, -6143, -6210} {
		target := target
		un(fmt.Sprintf("Ldexp(to 1e%d)", target), func(d D) D {
			n := num(d)
			if n.Class != ref.Finite || n.IsZero() {
				return decimal128.Ldexp(d, target)
			}
			return decimal128.Ldexp(d, target-(ref.NumDigits(n.Coef)-1+n.Exp))
		})
	}
	add("Frexp", 1, func(a []D) string { f, e := decimal128.Frexp(a[0]); return fmt.Sprintf("%s %d", sigOfD(f), e) })
	add("Float64", 1, func(a []D) string { return fmt.Sprintf("%x", math.Float64bits(a[0].Float64())) })
	add("Float32", 1, func(a []D) string { return fmt.Sprintf("%x", math.Float32bits(a[0].Float32())) })
	add("Float", 1, func(a []D) string { return a[0].Float(nil).Text('p', 0) })
	add("Int64", 1, func(a []D) string { v, ok := a[0].Int64(); return fmt.Sprint(v, ok) })
	add("Int32", 1, func(a []D) string { v, ok := a[0].Int32(); return fmt.Sprint(v, ok) })
	add("Uint64", 1, func(a []D) string { v, ok := a[0].Uint64(); return fmt.Sprint(v, ok) })
	add("Uint32", 1, func(a []D) string { v, ok := a[0].Uint32(); return fmt.Sprint(v, ok) })
	add("Int", 1, func(a []D) string { return a[0].Int(nil).String() })
	add("Rat", 1, func(a []D) string { return a[0].Rat(nil).String() })
	add("IsZero", 1, func(a []D) string { return fmt.Sprint(a[0].IsZero()) })
	add("IsNaN", 1, func(a []D) string { return fmt.Sprint(a[0].IsNaN()) })
	add("IsInf", 1, func(a []D) string { return fmt.Sprint(a[0].IsInf(0), a[0].IsInf(1), a[0].IsInf(-1)) })
	add("Sign", 1, func(a []D) string { return fmt.Sprint(a[0].Sign()) })
	add("Signbit", 1, func(a []D) string { return fmt.Sprint(a[0].Signbit()) })
	add("String", 1, func(a []D) string { return sigOfText(a[0].String()) })
	add("MarshalText", 1, func(a []D) string { t, _ := a[0].MarshalText(); return sigOfText(string(t)) })
	add("MarshalJSON", 1, func(a []D) string {
		t, err := a[0].MarshalJSON()
		if err != nil {
			return "error"
		}
		return sigOfText(string(t))
	})
	add("json.Marshal", 1, func(a []D) string {
		t, err := json.Marshal([]decimal128.Decimal{a[0]})
		if err != nil {
			return "error"
		}
		return sigOfText(strings.Trim(string(t), "[]"))
	})
	for _, v := range []byte{'e', 'f', 'g', 'E', 'G'} {
		v := v
		add("Format("+string(v)+",-1)", 1, func(a []D) string { return sigOfText(decimal128.Format(a[0], v, -1)) })
		add("Format("+string(v)+",5)", 1, func(a []D) string { return decimal128.Format(a[0], v, 5) })
	}
	for _, spec := range []string{"%v", "%10.3f", "%e", "%+.10g", "%-12.0f|", "%#g", "% 08.2f", "%.40f"} {
		spec := spec
		add("Sprintf("+spec+")", 1, func(a []D) string { return fmt.Sprintf(spec, a[0]) })
	}
	add("Decimal.Append(8.3e)", 1, func(a []D) string { return string(a[0].Append(nil, "8.3e")) })
	add("Decompose", 1, func(a []D) string {
		form, neg, coef, exp := a[0].Decompose(nil)
		n := ref.Num{Class: ref.Finite, Coef: new(big.Int).SetBytes(coef), Exp: int(exp)}
		if n.Coef.Sign() == 0 {
			return fmt.Sprint(form, neg, "0")
		}
		c, e := stripped(n)
		return fmt.Sprint(form, neg, c.String(), e)
	})
	return ops
}

type cohortJudge struct {
	ctx *Ctx
	sh  *mon.Shard
	ops []cohortOp
}

func (j *cohortJudge) runOp(op *cohortOp, a []D) (s string) {
	defer func() {
		if r := recover(); r != nil {
			s = fmt.Sprintf("panic:%v", r)
		}
	}()
	return op.f(a)
}

func (j *cohortJudge) judgeOps(a, b [2]ref.Bits, onlyOp string) {
	da := []D{toD(a[0]), toD(a[1])}
	db := []D{toD(b[0]), toD(b[1])}
	differ1 := a[0] != b[0]
	differ2 := differ1 || a[1] != b[1]
	for i := range j.ops {
		op := &j.ops[i]
		if onlyOp != "" && op.name != onlyOp {
			continue
		}
		nt := differ1
		if op.arity == 2 {
			nt = differ2
		}
		s1 := j.runOp(op, da)
		s2 := j.runOp(op, db)
		if op.arity == 2 {
			j.sh.Eval(hash2(op.name, a[0].Hi, a[0].Lo, a[1].Hi, a[1].Lo, b[0].Lo^b[1].Hi, b[0].Hi^b[1].Lo), nt)
		} else {
			j.sh.Eval(hash2(op.name, a[0].Hi, a[0].Lo, b[0].Hi, b[0].Lo), nt)
		}
		if s1 != s2 {
			c := j.ctx.NewCase(j.sh, op.name)
			c.X = []string{a[0].Hex(), a[1].Hex(), b[0].Hex(), b[1].Hex()}
			j.sh.Violate(c, "encoding-dependent", clipS(s1, 200), clipS(s2, 200),
				fmt.Sprintf("op=%s operands %v, %v versus same values encoded as %v, %v", op.name, ref.Decode(a[0]), ref.Decode(a[1]), ref.Decode(b[0]), ref.Decode(b[1])))
		}
	}
	j.sh.Cell("opsets")
	na, nb := ref.Decode(a[0]), ref.Decode(b[0])
	if na.Class == ref.Finite {
		d := na.Exp - nb.Exp
		if d < 0 {
			d = -d
		}
		if d > 35 {
			d = 36
		}
		j.sh.Cell(fmt.Sprintf("cohort-distance/%d", d))
	}
}

// cohortRange returns the exponent range [lo, hi] over which the finite
// non-zero value n can be encoded.
func cohortRange(n ref.Num) (*big.Int, int, int) {
	c, e := stripped(n)
	hi := e
	for hi > ref.MaxExp {
		c = new(big.Int).Mul(c, ref.Ten)
		hi--
	}
	lo := hi
	cc := new(big.Int).Set(c)
	for lo-1 >= ref.MinExp {
		t := new(big.Int).Mul(cc, ref.Ten)
		if t.Cmp(ref.Cmax) > 0 {
			break
		}
		cc = t
		lo--
	}
	return c, lo, hi
}

func (j *cohortJudge) judgeCanonical(x ref.Bits, alt ref.Bits, other ref.Bits) {
	n := ref.Decode(x)
	mk := func() *mon.Case {
		c := j.ctx.NewCase(j.sh, "CanonicalForm")
		c.X = []string{x.Hex(), alt.Hex(), other.Hex()}
		return c
	}
	var cx, cxx, calt, coth D
	pv, pan := try(func() {
		cx = toD(x).Canonical()
		cxx = cx.Canonical()
		calt = toD(alt).Canonical()
		coth = toD(other).Canonical()
	})
	j.sh.Eval(hash2("CanonicalForm", x.Hi, x.Lo, alt.Hi, alt.Lo, other.Hi, other.Lo), true)
	if pan {
		j.sh.Violate(mk(), "panic", "no panic", fmt.Sprint(pv), "")
		return
	}
	bx := toB(cx)
	g := ref.Decode(bx)
	detail := fmt.Sprintf("d=%v canonical=%v", n, g)
	if toB(cxx) != bx {
		j.sh.Violate(mk(), "idempotence", "Canonical(Canonical(d)) bit-equal to Canonical(d)", toB(cxx).Hex(), detail)
		return
	}
	switch n.Class {
	case ref.NaN:
		if bx.Hi&0x7fff_ffff_ffff_ffff != 0x7c00_0000_0000_0000 || bx.Lo != 0 {
			j.sh.Violate(mk(), "normal-form", "NaN with payload and garbage stripped (0x7c00...0)", bx.Hex(), detail)
		}
		j.sh.Cell("canonical/nan")
	case ref.Inf:
		want := ref.EncodeInf(n.Neg)
		if bx != want {
			j.sh.Violate(mk(), "normal-form", want.Hex(), bx.Hex(), detail)
		}
		j.sh.Cell("canonical/inf")
	default:
		if g.Class != ref.Finite || g.Neg != n.Neg || !ref.SameValue(g.Coef, g.Exp, n.Coef, n.Exp) {
			j.sh.Violate(mk(), "value", "same value and sign as d", g.String(), detail)
			return
		}
		if n.IsZero() {
			want := ref.Bits{}
			if n.Neg {
				want.Hi = 1 << 63
			}
			if bx != want {
				j.sh.Violate(mk(), "normal-form", "zero with only the sign bit", bx.Hex(), detail)
			}
			j.sh.Cell("canonical/zero")
		} else {
			_, lo, hi := cohortRange(n)
			wantExp := 0
			if lo > 0 {
				wantExp = lo
			} else if hi < 0 {
				wantExp = hi
			}
			if g.Exp != wantExp {
				j.sh.Violate(mk(), "normal-form", fmt.Sprintf("exponent %d (closest to zero within the cohort %d..%d)", wantExp, lo, hi), fmt.Sprint(g.Exp), detail)
				return
			}
			switch {
			case wantExp == 0:
				j.sh.Cell("canonical/exp-zero")
			case wantExp > 0:
				j.sh.Cell("canonical/exp-positive")
			default:
				j.sh.Cell("canonical/exp-negative")
			}
		}
		// identical bits exactly when value and sign are equal
		an := ref.Decode(alt)
		if sameValueSign(an, n) && toB(calt) != bx {
			j.sh.Violate(mk(), "normal-form", "identical bits for equal values: "+bx.Hex(), toB(calt).Hex(), detail+" alt="+an.String())
			return
		}
		on := ref.Decode(other)
		if on.Class == ref.Finite && !sameValueSign(on, n) && toB(coth) == bx {
			j.sh.Violate(mk(), "normal-form", "different bits for different values", bx.Hex(), detail+" other="+on.String())
			return
		}
		j.sh.Cell("canonical/iff-checked")
	}
}

// distinguishedValue returns one of the values operations treat specially
// (shortcut operands: one, powers of ten, two, one half, small integers); the
// caller re-encodes it as an arbitrary cohort member.
func distinguishedValue(r *gen.RNG) ref.Bits {
	neg := r.Chance(1, 3)
	switch r.Intn(6) {
	case 0, 1:
		return ref.Encode(neg, big.NewInt(1), 0)
	case 2:
		return ref.Encode(neg, big.NewInt(1), r.Pick(1, -1, 2, -2, 3, -7, 19, 20, 33, -33, 34, 100, -100))
	case 3:
		return ref.Encode(neg, big.NewInt(int64(r.Pick(2, 3, 4, 5, 8, 9, 16, 25, 27, 64, 100))), 0)
	case 4:
		return ref.Encode(neg, big.NewInt(int64(r.Pick(5, 25, 125, 2, 15, 75))), r.Pick(-1, -2, -3))
	}
	return ref.Encode(neg, big.NewInt(int64(r.Range(1, 40))), 0)
}

func genCohortValue(r *gen.RNG) ref.Bits {
	neg := r.Bool()
	if r.Chance(1, 8) {
		return altEncoding(r, distinguishedValue(r))
	}
	if r.Chance(1, 10) {
		// integers with trailing zeros just inside / outside a machine-integer bound: the conversions must give
		// the same answer for 1844674407370955161e1 and 18446744073709551610
		bnd := new(big.Int).Lsh(ref.One, uint(r.Pick(31, 32, 63, 64)))
		jz := r.Range(1, 6)
		c := new(big.Int).Quo(bnd, ref.Pow10(jz))
		c.Sub(c, big.NewInt(int64(r.Range(-1, 40))))
		if r.Chance(1, 3) {
			c.Sub(c, r.BigBelow(new(big.Int).Quo(c, big.NewInt(40)))) // anywhere in the top 2.5 per cent
		}
		if c.Sign() <= 0 {
			c.SetInt64(1)
		}
		return altEncoding(r, ref.Encode(neg, c, jz))
	}
	switch r.Intn(8) {
	case 0:
		return ref.Encode(neg, new(big.Int), r.Exp())
	case 1, 2, 3: // few digits: many cohort members
		c := r.Digits(r.Range(1, 6))
		return ref.Encode(neg, c, r.Pick(r.Range(-40, 40), r.Range(-6176, 6111), 0, -1, 1, -3, 5))
	case 4: // 20 digits
		return ref.Encode(neg, r.Digits(20), r.Range(-60, 40))
	case 5: // 33 / 34 digits
		return ref.Encode(neg, r.Digits(r.Range(33, 34)), r.Range(-60, 40))
	case 6: // small values handy for Pow / Exp (moderate magnitudes)
		c := big.NewInt(int64(r.Range(1, 300)))
		return ref.Encode(neg, c, r.Range(-3, 1))
	}
	return r.Finite()
}

func altEncoding(r *gen.RNG, b ref.Bits) ref.Bits {
	n := ref.Decode(b)
	if n.Class != ref.Finite {
		return b
	}
	if n.IsZero() {
		return ref.Encode(n.Neg, n.Coef, r.Exp())
	}
	c, lo, hi := cohortRange(n)
	var e int
	switch r.Intn(4) {
	case 0:
		e = lo
	case 1:
		e = hi
	default:
		e = r.Range(lo, hi)
	}
	cc := new(big.Int).Mul(c, ref.Pow10(hi-e))
	return ref.Encode(n.Neg, cc, e)
}

func runC19(c *Ctx) {
	c.Parallel("cohorts", ref.NearestEven, func(sh *mon.Shard, r *gen.RNG) {
		j := &cohortJudge{ctx: c, sh: sh, ops: cohortOps()}
		n := c.N(1200, 12000)
		for i := 0; i < n; i++ {
			x := genCohortValue(r)
			y := genCohortValue(r)
			if i%5 == 0 {
				// relate y to x so that cancellations, equal comparisons and exact quotients occur
				y = altEncoding(r, x)
				if r.Bool() {
					y.Hi ^= 1 << 63
				}
			}
			if i%5 == 1 {
				// y = x +/- one non-zero digit at some position, written in a finer cohort member:
				// comparisons and differences must not depend on which encodings are used
				xn := ref.Decode(x)
				if xn.Class == ref.Finite && !xn.IsZero() {
					g := r.Range(1, 33)
					cy := new(big.Int).Mul(xn.Coef, ref.Pow10(g))
					d := new(big.Int).Mul(big.NewInt(int64(r.Range(1, 9))), ref.Pow10(r.Intn(g)))
					if r.Bool() {
						cy.Add(cy, d)
					} else {
						cy.Sub(cy, d)
					}
					if cy.Sign() > 0 && cy.Cmp(ref.Cmax) <= 0 && xn.Exp-g >= ref.MinExp {
						y = ref.Encode(xn.Neg, cy, xn.Exp-g)
					}
				}
			}
			if i%8 == 7 {
				// a special second (or first) operand: the finite operand's encoding must still not matter
				sp := r.Pick(0, 1, 2, 3)
				var sb ref.Bits
				switch sp {
				case 0:
					sb = ref.EncodeInf(false)
				case 1:
					sb = ref.EncodeInf(true)
				case 2:
					sb = ref.Bits{Hi: 0x7c00_0000_0000_0000}
				default:
					sb = ref.Encode(r.Bool(), new(big.Int), r.Exp())
				}
				if r.Bool() {
					// the finite operand on either side of one (and of minus one), a few digits long, so that its
					// cohort reaches the 35-digit member: the class decisions against Inf/NaN/0 (|x| < 1, = 1, > 1)
					// must not depend on the encoding (seed C19-pow-inf-exponent-guard-34-digits)
					k := r.Range(1, 6)
					cc := new(big.Int).Set(ref.Pow10(k))
					dlt := big.NewInt(int64(r.Range(0, 3) * r.Pick(1, 1, 10, 100)))
					if r.Chance(1, 3) {
						dlt.Mul(big.NewInt(int64(r.Range(1, 29))), ref.Pow10(r.Intn(k)))
					}
					if r.Bool() {
						cc.Add(cc, dlt)
					} else {
						cc.Sub(cc, dlt)
					}
					if cc.Sign() <= 0 {
						cc.SetInt64(1)
					}
					x = altEncoding(r, ref.Encode(r.Bool(), cc, -k))
					j.sh.Cell("gen/special-operand-vs-near-one")
				}
				if r.Bool() {
					y = sb
				} else {
					x, y = sb, x
				}
				j.sh.Cell("gen/special-operand")
			}
			a := [2]ref.Bits{x, y}
			b := [2]ref.Bits{altEncoding(r, x), altEncoding(r, y)}
			if i%3 == 0 {
				b[1] = y
			}
			j.judgeOps(a, b, "")
			j.judgeCanonical(x, altEncoding(r, x), y)
			if i%4 == 0 {
				j.judgeCanonical(r.AnyBits(), r.AnyBits(), r.AnyBits())
			}
		}
		c.Col.Res.Extra["operations_compared"] = len(j.ops)
	})
	c.Col.Res.Targets = append(c.Col.Res.Targets,
		mon.Target{Prefix: "canonical/", Total: 7, Min: 7},
		mon.Target{Prefix: "cohort-distance/", Total: 37, Min: 30},
	)
}

func replayC19(c *Ctx, sh *mon.Shard, cs *mon.Case) {
	j := &cohortJudge{ctx: c, sh: sh, ops: cohortOps()}
	var bs []ref.Bits
	for _, h := range cs.X {
		b, _ := ref.ParseHex(h)
		bs = append(bs, b)
	}
	if cs.Op == "CanonicalForm" && len(bs) == 3 {
		j.judgeCanonical(bs[0], bs[1], bs[2])
		return
	}
	if len(bs) == 4 {
		j.judgeOps([2]ref.Bits{bs[0], bs[1]}, [2]ref.Bits{bs[2], bs[3]}, cs.Op)
	}
}
