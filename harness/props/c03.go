package props

import (
	"fmt"
	"math/big"

	"verifharness/gen"
	"verifharness/mon"
	"verifharness/ref"
)

func init() {
	register(&Prop{
		ID: "C03",
		Rule: "pairs (x,y): every exponent gap -45..45, saturating gaps 36..120 and 500/6000/12287 (integer quotients with thousands of digits), 64- and 128-bit coefficients, " +
			"exact multiples and multiples +/-1 unit, |x| just below |y|, zero and infinite operands. Each pair judged for QuoRemWithMode in 6 modes and QuoRem under the current default (6 phases). " +
			"Oracle: t = trunc(x/y) in big.Int, q = t rounded into the format by the mode, r = x - y*t exactly with x's sign. " +
			"non-trivial = quotient not zero and (remainder non-zero or quotient not representable); distinct = distinct (x,y,mode).",
		Run:    runC03,
		Replay: replayC03,
		Assume: []string{"harness BID decoder and big.Int arithmetic are correct"},
		Cover:  []string{"Decimal.QuoRemWithMode", "uint128.div", "RoundingMode.reduce128"},
	})
}

type qrJudge struct {
	ctx *Ctx
	sh  *mon.Shard
}

func (j *qrJudge) judgePair(x, y ref.Bits, only string, onlyMode int) {
	xn, yn := ref.Decode(x), ref.Decode(y)
	if xn.Class == ref.NaN || yn.Class == ref.NaN {
		return
	}
	dx, dy := toD(x), toD(y)
	def := ref.Mode(currentDefault())
	qneg := xn.Neg != yn.Neg

	type expect int
	const (
		eNormal     expect = iota
		eZeroX             // x = 0, y finite non-zero: (xor zero, x-signed zero)
		eOverInf           // finite / Inf: (xor zero, x)
		eInvalidInf        // r NaN, q Inf xor
		eInvalidNaN        // both NaN
	)
	var kind expect
	var t, R *big.Int
	var rexp int
	var qex *ref.Exact
	switch {
	case xn.Class == ref.Inf && yn.Class == ref.Inf:
		kind = eInvalidNaN
	case xn.Class == ref.Inf:
		kind = eInvalidInf
	case yn.Class == ref.Inf:
		kind = eOverInf
	case yn.IsZero() && xn.IsZero():
		kind = eInvalidNaN
	case yn.IsZero():
		kind = eInvalidInf
	case xn.IsZero():
		kind = eZeroX
	default:
		d := xn.Exp - yn.Exp
		if d >= 0 {
			a := xn.Coef
			if d > 0 {
				a = new(big.Int).Mul(a, ref.Pow10(d))
			}
			t, R = new(big.Int).QuoRem(a, yn.Coef, new(big.Int))
			rexp = yn.Exp
		} else {
			if -d > 40 {
				t, R = new(big.Int), new(big.Int).Set(xn.Coef)
			} else {
				b := new(big.Int).Mul(yn.Coef, ref.Pow10(-d))
				t, R = new(big.Int).QuoRem(xn.Coef, b, new(big.Int))
			}
			rexp = xn.Exp
		}
		if t.Sign() != 0 {
			qex = ref.PrepareScaled(qneg, t, 0)
		}
	}
	judge := func(op string, m ref.Mode, explicit bool) {
		if only != "" && (only != op || (explicit && onlyMode != int(m))) {
			return
		}
		var q, r D
		pv, pan := try(func() {
			if explicit {
				q, r = dx.QuoRemWithMode(dy, rm(m))
			} else {
				q, r = dx.QuoRem(dy)
			}
		})
		mk := func() *mon.Case {
			c := j.ctx.NewCase(j.sh, op)
			c.X = []string{x.Hex(), y.Hex()}
			if explicit {
				c.Mode = int(m)
			}
			return c
		}
		nontriv := kind == eNormal && t.Sign() != 0 && (R.Sign() != 0 || !qex.IsExact)
		mv := uint64(99)
		if explicit {
			mv = uint64(m)
		}
		j.sh.Eval(hash2(op, x.Hi, x.Lo, y.Hi, y.Lo, mv), nontriv)
		if pan {
			j.sh.Violate(mk(), "panic", "no panic", fmt.Sprint(pv), "")
			return
		}
		gq, gr := num(q), num(r)
		got := fmt.Sprintf("q=%v r=%v", gq, gr)
		bad := func(k, want string) {
			j.sh.Violate(mk(), k, want, got, fmt.Sprintf("x=%v y=%v mode=%v", xn, yn, m))
		}
		switch kind {
		case eInvalidNaN:
			j.sh.Cell("invalid-both-nan")
			if gq.Class != ref.NaN || gr.Class != ref.NaN {
				bad("class", "q=NaN r=NaN")
			}
		case eInvalidInf:
			j.sh.Cell("invalid-inf-quotient")
			if gr.Class != ref.NaN || gq.Class != ref.Inf || gq.Neg != qneg {
				bad("class", fmt.Sprintf("q=Inf(neg=%v) r=NaN", qneg))
			}
		case eOverInf:
			j.sh.Cell("finite-over-inf")
			okr := gr.Class == ref.Finite && gr.Neg == xn.Neg && ref.SameValue(gr.Coef, gr.Exp, xn.Coef, xn.Exp)
			if !(gq.IsZero() && gq.Neg == qneg && okr) {
				bad("value", fmt.Sprintf("q=zero(neg=%v) r=x", qneg))
			}
		case eZeroX:
			j.sh.Cell("zero-dividend")
			if !(gq.IsZero() && gq.Neg == qneg && gr.IsZero() && gr.Neg == xn.Neg) {
				bad("value", fmt.Sprintf("q=zero(neg=%v) r=zero(neg=%v)", qneg, xn.Neg))
			}
		default:
			// remainder: exact, x's sign
			okr := gr.Class == ref.Finite && gr.Neg == xn.Neg && ref.SameValue(gr.Coef, gr.Exp, R, rexp)
			var okq bool
			var wq string
			if t.Sign() == 0 {
				okq = gq.IsZero() && gq.Neg == qneg
				wq = fmt.Sprintf("zero(neg=%v)", qneg)
				j.sh.Cell("q-zero")
			} else {
				w := qex.Round(m, false)
				okq = w.Matches(gq)
				wq = w.String()
				switch {
				case w.Inf:
					j.sh.Cell("q-inf")
				case !qex.IsExact:
					j.sh.Cell(fmt.Sprintf("q-rounded/m%d", int(m)))
					j.sh.Cell(decisionCell("qdt", qex, m))
				default:
					j.sh.Cell("q-exact")
				}
			}
			if R.Sign() == 0 {
				j.sh.Cell("r-zero")
			} else {
				j.sh.Cell("r-nonzero")
			}
			if t.Sign() != 0 {
				nd := ref.NumDigits(t)
				switch {
				case nd > 1000:
					j.sh.Cell("qdigits/>1000")
				case nd > 120:
					j.sh.Cell("qdigits/121-1000")
				case nd > 38:
					j.sh.Cell("qdigits/39-120")
				case nd > 34:
					j.sh.Cell("qdigits/35-38")
				default:
					j.sh.Cell("qdigits/<=34")
				}
			}
			if !okq || !okr {
				k := "quotient"
				if okq {
					k = "remainder"
				}
				want := fmt.Sprintf("q=%s r=%se%d (neg=%v)", wq, R.String(), rexp, xn.Neg)
				if len(want) > 600 {
					want = want[:600] + "..."
				}
				if gq.Class == ref.NaN || gr.Class == ref.NaN {
					k = "nan-from-finite"
				}
				bad(k, want)
			} else if nontriv && j.sh.Evals%20000 == 1 {
				j.sh.Sample(mk())
			}
		}
	}
	for m := ref.Mode(0); m < ref.NumModes; m++ {
		judge("QuoRemWithMode", m, true)
	}
	judge("QuoRem", def, false)
	if xn.Class == ref.Finite && yn.Class == ref.Finite {
		g := xn.Exp - yn.Exp
		switch {
		case g >= -45 && g <= 120:
			j.sh.Cell(fmt.Sprintf("gap/%d", g))
		case g < 0:
			j.sh.Cell("gap/neg-far")
		default:
			j.sh.Cell("gap/pos-far")
		}
	}
}

func (j *qrJudge) genCase(r *gen.RNG, i int) (ref.Bits, ref.Bits) {
	sx, sy := r.Bool(), r.Bool()
	nz := func(c *big.Int) *big.Int {
		if c.Sign() == 0 {
			return big.NewInt(int64(r.Range(1, 9)))
		}
		return c
	}
	switch i % 12 {
	case 0, 1, 2: // gap sweep
		var gap int
		switch r.Intn(4) {
		case 0, 1:
			gap = r.Range(-45, 45)
		case 2:
			gap = r.Range(36, 120)
		default:
			gap = r.Pick(500, 6000, 12287, 12286, 1000, 121, 200)
		}
		x, y := buildGapPair(r, gap)
		yn := ref.Decode(y)
		if yn.IsZero() {
			y = ref.Encode(yn.Neg, big.NewInt(3), yn.Exp)
		}
		return x, y
	case 3, 4: // exact multiples and multiples +/- 1
		cy := nz(r.Digits(r.Range(1, 20)))
		k := nz(r.Digits(r.Range(1, 14)))
		cx := new(big.Int).Mul(cy, k)
		cx.Add(cx, big.NewInt(int64(r.Range(-1, 1))))
		if cx.Sign() <= 0 {
			cx = big.NewInt(1)
		}
		ey := r.Range(-3000, 3000)
		ex := gen.ClampExp(ey + r.Pick(0, 0, 1, 2, 5, 19, 20, 34, 35, 36, 40, 60, 100, -1, -2, -5))
		return ref.Encode(sx, cx, ex), ref.Encode(sy, cy, ey)
	case 5: // |x| just below / equal / above |y| in different cohorts
		c, _ := r.Coef()
		c = nz(c)
		e := r.Range(-3000, 3000)
		yb := ref.Encode(sy, c, e)
		c2 := new(big.Int).Add(c, big.NewInt(int64(r.Range(-1, 1))))
		if c2.Sign() <= 0 || c2.Cmp(ref.Cmax) > 0 {
			c2 = c
		}
		xb := ref.Encode(sx, c2, e)
		if alt, ok := r.CohortMember(ref.Decode(xb)); ok && r.Bool() {
			xb = alt
		}
		return xb, yb
	case 6: // both below 2^64
		a := new(big.Int).SetUint64(r.U64() >> uint(r.Intn(50)))
		b := nz(new(big.Int).SetUint64(r.U64() >> uint(r.Intn(60))))
		e := r.Range(-100, 100)
		return ref.Encode(sx, a, gen.ClampExp(e+r.Range(0, 60))), ref.Encode(sy, b, e)
	case 7: // wide dividend, divisor shapes
		a, _ := r.Coef()
		e := r.Range(-3000, 3000)
		return ref.Encode(sx, a, gen.ClampExp(e+r.Range(-5, 80))), ref.Encode(sy, divisorShape(r), e)
	case 8: // specials and zeros
		pick := func() ref.Bits {
			switch r.Intn(4) {
			case 0:
				return ref.EncodeInf(r.Bool())
			case 1:
				return ref.Encode(r.Bool(), new(big.Int), r.Exp())
			}
			return r.Finite()
		}
		return pick(), pick()
	case 9: // huge quotient near / beyond MaxFinite
		a, _ := r.Coef()
		a = nz(a)
		b := divisorShape(r)
		ey := ref.MinExp + r.Intn(60)
		ex := ref.MaxExp - r.Intn(200)
		return ref.Encode(sx, a, ex), ref.Encode(sy, b, ey)
	}
	x := r.Finite()
	y := r.FiniteNear(ref.Decode(x).Exp, -r.Range(-10, 60))
	if xn := ref.Decode(x); i%12 == 10 && !xn.IsZero() {
		// divisor derived from part of the dividend's coefficient (low/high word, 10^19 chunk ...), or the same
		// value written in another cohort member (numerically equal operands, quotient exactly one)
		if r.Chance(1, 3) {
			if alt, ok := r.CohortMember(xn); ok {
				y = alt
				y.Hi ^= uint64(r.Intn(2)) << 63
			}
		} else {
			y = r.WordImageOperand(sy, xn.Coef, gen.ClampExp(xn.Exp-r.Range(0, 40)))
		}
		j.sh.Cell("gen/derived-divisor")
	}
	return x, y
}

func runC03(c *Ctx) {
	for def := ref.Mode(0); def < ref.NumModes; def++ {
		c.Parallel("pairs", def, func(sh *mon.Shard, r *gen.RNG) {
			j := &qrJudge{ctx: c, sh: sh}
			n := c.N(6000, 80000)
			for i := 0; i < n; i++ {
				x, y := j.genCase(r, i)
				j.judgePair(x, y, "", 0)
			}
		})
	}
	c.Col.Res.Targets = append(c.Col.Res.Targets,
		mon.Target{Prefix: "gap/", Total: 168, Min: 166},
		mon.Target{Prefix: "qdigits/", Total: 5, Min: 5},
		mon.Target{Prefix: "q-rounded/", Total: 6, Min: 6},
	)
}

func replayC03(c *Ctx, sh *mon.Shard, cs *mon.Case) {
	x, _ := ref.ParseHex(cs.X[0])
	y, _ := ref.ParseHex(cs.X[1])
	j := &qrJudge{ctx: c, sh: sh}
	j.judgePair(x, y, cs.Op, cs.Mode)
}
