package props

import (
	"fmt"
	"math/big"
	"strings"

	"github.com/woodsbury/decimal128"

	"verifharness/gen"
	"verifharness/mon"
	"verifharness/ref"
)

func init() {
	register(&Prop{
		ID: "C06",
		Rule: "finite values on the grid coefficient digit length 1..35 x trailing zeros 0..34 x exponent class (adjusted exponent around the -4/5 switch-over, range ends, random), both BID forms, zeros of every exponent, specials and random bit patterns. " +
			"For each value the texts of String, MarshalText, %v, Format/Append with precision -1 (e,E,f,g,G) are read by the harness's own numeral reader (exact value, sign, minimal digits, layout rule) and fed back through Parse, UnmarshalText and Sscan. " +
			"non-trivial = finite non-zero value; distinct = distinct bit patterns.",
		Run:    runC06,
		Replay: replayC06,
		Assume: []string{"harness numeral reader and BID decoder are correct"},
		Cover:  []string{"Decimal.digits", "digits.fmtE", "digits.fmtF", "Decimal.String", "Decimal.MarshalText", "Append", "Format"},
	})
}

type textJudge struct {
	ctx *Ctx
	sh  *mon.Shard
}

// strippedCoef returns the coefficient digits without trailing zeros and the
// number of zeros removed.
func strippedCoef(c *big.Int) (string, int) {
	s := c.String()
	t := strings.TrimRight(s, "0")
	return t, len(s) - len(t)
}

func (j *textJudge) judge(b ref.Bits, only string) {
	n := ref.Decode(b)
	d := toD(b)
	mk := func(op string) *mon.Case {
		c := j.ctx.NewCase(j.sh, op)
		c.X = []string{b.Hex()}
		return c
	}
	nontriv := n.Class == ref.Finite && !n.IsZero()
	type prod struct {
		name  string
		shape string // "default", "e", "E", "f", "g", "G"
		f     func() string
	}
	prods := []prod{
		{"String", "default", func() string { return d.String() }},
		{"MarshalText", "default", func() string {
			t, err := d.MarshalText()
			if err != nil {
				panic("MarshalText error: " + err.Error())
			}
			return string(t)
		}},
		{"Sprintf%v", "default", func() string { return fmt.Sprintf("%v", d) }},
		{"Sprint", "default", func() string { return fmt.Sprint(d) }},
	}
	for _, v := range []byte{'e', 'E', 'f', 'g', 'G'} {
		v := v
		prods = append(prods,
			prod{"Format(" + string(v) + ",-1)", string(v), func() string { return decimal128.Format(d, v, -1) }},
			prod{"Append(" + string(v) + ",-1)", string(v), func() string {
				pre := []byte("prefix")
				out := decimal128.Append(pre, d, v, -1)
				if string(out[:6]) != "prefix" {
					panic("Append clobbered the prefix")
				}
				return string(out[6:])
			}})
	}
	// producers that hand out a freshly returned slice: the caller owns it and may
	// overwrite it; that must not disturb any later output (no aliasing of library storage)
	scribble := func(b []byte) string {
		s := string(b)
		for i := range b {
			b[i] = '#'
		}
		return s
	}
	prods = append(prods,
		prod{"MarshalText+overwrite", "default", func() string {
			t, err := d.MarshalText()
			if err != nil {
				panic("MarshalText error: " + err.Error())
			}
			return scribble(t)
		}},
		prod{"Append(nil,g,-1)+overwrite", "g", func() string { return scribble(decimal128.Append(nil, d, 'g', -1)) }},
		prod{"Decimal.Append(nil,v)+overwrite", "default", func() string { return scribble(d.Append(nil, "v")) }},
		prod{"String-after-overwrite", "default", func() string { return d.String() }},
	)
	var defaultText string
	haveDefault := false
	for _, p := range prods {
		if only != "" && only != p.name {
			continue
		}
		var text string
		pv, pan := try(func() { text = p.f() })
		j.sh.Eval(hash2(p.name, b.Hi, b.Lo), nontriv)
		if pan {
			j.sh.Violate(mk(p.name), "panic", "no panic", fmt.Sprint(pv), "")
			continue
		}
		bad := func(kind, want string) {
			j.sh.Violate(mk(p.name), kind, want, fmt.Sprintf("%q", text), fmt.Sprintf("d=%v", n))
		}
		if n.Class != ref.Finite {
			want := "NaN"
			if n.Class == ref.Inf {
				want = "+Inf"
				if n.Neg {
					want = "-Inf"
				}
			}
			if text != want {
				bad("text", want)
			}
			j.sh.Cell("special")
			j.roundTrip(b, n, text, p.name, mk)
			continue
		}
		if p.shape == "default" {
			if haveDefault && text != defaultText {
				bad("text", fmt.Sprintf("identical to the other default-form producers (%q)", defaultText))
			}
			defaultText, haveDefault = text, true
		}
		num, ok := ref.ReadNumeral(text)
		if !ok {
			bad("text", "a numeral [+-]digits[.digits][e[+-]dd]")
			continue
		}
		// sign
		if (num.SignChar == '-') != n.Neg || num.SignChar == '+' {
			bad("sign", fmt.Sprintf("'-' iff sign bit (neg=%v), never '+'", n.Neg))
			continue
		}
		// exact value
		m, k := num.Value()
		if !ref.SameValue(m, k, n.Coef, n.Exp) {
			bad("value", "numeral denoting exactly "+n.String())
			continue
		}
		// minimal digits
		sc, _ := strippedCoef(n.Coef)
		all := num.Int + num.Frac
		sig := strings.TrimRight(strings.TrimLeft(all, "0"), "0")
		if n.IsZero() {
			sc = ""
		}
		minimal := sig == sc &&
			(!num.HasDot || len(num.Frac) > 0) &&
			(len(num.Frac) == 0 || num.Frac[len(num.Frac)-1] != '0') &&
			(num.Int == "0" || (len(num.Int) > 0 && num.Int[0] != '0'))
		if !minimal {
			bad("digits", "no superfluous digits (significant digits "+sc+")")
			continue
		}
		// layout
		X := 0
		if !n.IsZero() {
			X = n.Exp + ref.NumDigits(n.Coef) - 1
		}
		wantExp := false
		switch p.shape {
		case "default", "g", "G":
			wantExp = X < -4 || X > 5
		case "e", "E":
			wantExp = true
		case "f":
			wantExp = false
		}
		if wantExp != num.HasExp {
			bad("layout", fmt.Sprintf("exponent form=%v (adjusted exponent %d)", wantExp, X))
			continue
		}
		if num.HasExp {
			ec := byte('e')
			if p.shape == "E" || p.shape == "G" {
				ec = 'E'
			}
			okShape := num.ExpChar == ec && (num.ExpSign == '+' || num.ExpSign == '-') && len(num.ExpDig) >= 2 &&
				(len(num.ExpDig) == 2 || num.ExpDig[0] != '0') && len(num.Int) == 1 && num.Exp == X &&
				(num.ExpSign == '-') == (X < 0)
			if !okShape {
				bad("layout", fmt.Sprintf("d(.d+)?%c[+-]dd+ with exponent %d", ec, X))
				continue
			}
			j.sh.Cell("out/exponent-form")
		} else {
			j.sh.Cell("out/positional")
		}
		if p.shape == "default" && X >= -6 && X <= 7 {
			j.sh.Cell(fmt.Sprintf("switchover/X=%d", X))
		}
		j.roundTrip(b, n, text, p.name, mk)
	}
	if n.Class == ref.Finite && !n.IsZero() {
		sc, tz := strippedCoef(n.Coef)
		j.sh.Cell(fmt.Sprintf("grid/%d/%d", len(sc)+tz, tz))
		if n.Large {
			j.sh.Cell("form/large")
		} else {
			j.sh.Cell("form/small")
		}
	} else if n.IsZero() {
		j.sh.Cell("zero")
	}
	if nontriv && j.sh.Evals%100000 < 14 {
		j.sh.Sample(mk("String"))
	}
}

// roundTrip feeds produced text back through the three readers and requires
// the same class, value and sign (judged on raw bits by the harness).
func (j *textJudge) roundTrip(b ref.Bits, n ref.Num, text, producer string, mk func(string) *mon.Case) {
	same := func(got ref.Num) bool {
		if got.Class != n.Class {
			return false
		}
		switch n.Class {
		case ref.NaN:
			return true
		case ref.Inf:
			return got.Neg == n.Neg
		}
		return got.Neg == n.Neg && ref.SameValue(got.Coef, got.Exp, n.Coef, n.Exp)
	}
	readers := []struct {
		name string
		f    func() (D, error)
	}{
		{"Parse", func() (D, error) { return decimal128.Parse(text) }},
		{"UnmarshalText", func() (D, error) {
			var d D
			err := d.UnmarshalText([]byte(text))
			return d, err
		}},
		{"Sscan", func() (D, error) {
			var d D
			_, err := fmt.Sscan(text, &d)
			return d, err
		}},
	}
	for _, rd := range readers {
		var d D
		var err error
		pv, pan := try(func() { d, err = rd.f() })
		op := producer + "->" + rd.name
		j.sh.Eval(hash2(op, b.Hi, b.Lo), n.Class == ref.Finite && !n.IsZero())
		if pan {
			j.sh.Violate(mk(op), "panic", "no panic", fmt.Sprint(pv), fmt.Sprintf("text=%q", text))
			continue
		}
		if err != nil || !same(num(d)) {
			j.sh.Violate(mk(op), "roundtrip", "same class, value and sign as "+n.String(), fmt.Sprintf("%v err=%v", num(d), err), fmt.Sprintf("text=%q", text))
		}
	}
}

func runC06(c *Ctx) {
	// The produced text denotes d exactly, so reading it back must give d whatever DefaultRoundingMode is: the
	// whole workload is spread over the six default modes (a spurious sticky flag in the reader is invisible under
	// the nearest modes and shows as one unit under the directed ones - seed C06-parse-dropped-zero-digit-sets-sticky).
	for def := ref.Mode(0); def < ref.NumModes; def++ {
		runC06Def(c, def)
	}
	c.Col.Res.Targets = append(c.Col.Res.Targets,
		mon.Target{Prefix: "grid/", Total: 630, Min: 628},
		mon.Target{Prefix: "switchover/", Total: 14, Min: 14},
		mon.Target{Prefix: "form/", Total: 2, Min: 2},
		mon.Target{Prefix: "readback-default-mode/", Total: 6, Min: 6},
	)
}

func runC06Def(c *Ctx, def ref.Mode) {
	c.Parallel("grid", def, func(sh *mon.Shard, r *gen.RNG) {
		j := &textJudge{ctx: c, sh: sh}
		sh.Cell(fmt.Sprintf("readback-default-mode/%d", def))
		// the repetitions are shared out over the six default modes (the 1/10 coverage prefix has fewer than six)
		total := c.N(6, 80)
		reps := total / 6
		if int(def) < total%6 {
			reps++
		}
		idx := 0
		for rep := 0; rep < reps; rep++ {
			for nd := 1; nd <= 35; nd++ {
				for tz := 0; tz < nd; tz++ {
					idx++
					if idx%c.Shards != sh.ID {
						continue
					}
					for ec := 0; ec < 6; ec++ {
						core := r.Digits(nd - tz)
						if nd == 35 {
							// 35-digit coefficients must stay <= Cmax
							lo := ref.Pow10(34 - tz)
							hi := new(big.Int).Quo(ref.Cmax, ref.Pow10(tz))
							span := new(big.Int).Sub(hi, lo)
							span.Add(span, ref.One)
							core = new(big.Int).Add(lo, r.BigBelow(span))
							if new(big.Int).Mod(core, ref.Ten).Sign() == 0 && core.Cmp(lo) > 0 {
								core.Sub(core, ref.One)
							}
						}
						// last digit of the core must be non-zero so that tz is exact
						if new(big.Int).Mod(core, ref.Ten).Sign() == 0 && nd < 35 {
							core.Add(core, big.NewInt(int64(r.Range(1, 9))))
						}
						coef := new(big.Int).Mul(core, ref.Pow10(tz))
						if coef.Cmp(ref.Cmax) > 0 {
							coef.Mod(coef, ref.CmaxP1)
						}
						var e int
						switch ec {
						case 0: // adjusted exponent around the switch-over
							X := r.Range(-7, 8)
							e = X - (nd - 1)
						case 1:
							e = ref.MinExp + r.Intn(40)
						case 2:
							e = ref.MaxExp - r.Intn(40)
						case 3:
							e = r.Range(-60, 20)
						default:
							e = r.Range(ref.MinExp, ref.MaxExp)
						}
						j.judge(ref.Encode(r.Bool(), coef, gen.ClampExp(e)), "")
					}
				}
			}
		}
	})
	c.Parallel("mixed", def, func(sh *mon.Shard, r *gen.RNG) {
		j := &textJudge{ctx: c, sh: sh}
		// deterministic: d*10^k (d = 1..9, every k that fits) at the largest and the smallest exponent, both signs -
		// the largest/smallest powers of ten and their cohorts (10^6145 = 10^34 e6111 ... 1e-6176)
		cnt := 0
		for k := 0; k <= 34; k++ {
			for dgt := int64(1); dgt <= 9; dgt++ {
				coef := new(big.Int).Mul(big.NewInt(dgt), ref.Pow10(k))
				if coef.Cmp(ref.Cmax) > 0 {
					continue
				}
				for _, e := range []int{ref.MaxExp, ref.MaxExp - 1, ref.MinExp, ref.MinExp + 1} {
					cnt++
					if cnt%c.Shards != sh.ID {
						continue
					}
					j.judge(ref.Encode(cnt%2 == 0, coef, e), "")
					j.judge(ref.Encode(cnt%2 == 1, coef, e), "")
				}
			}
		}
		n := c.N(12000, 150000) / 6
		for i := 0; i < n; i++ {
			switch i % 4 {
			case 0:
				j.judge(r.AnyBits(), "")
			case 1:
				j.judge(ref.Encode(r.Bool(), new(big.Int), r.Exp()), "")
			default:
				j.judge(r.Finite(), "")
			}
		}
	})
}

func replayC06(c *Ctx, sh *mon.Shard, cs *mon.Case) {
	b, _ := ref.ParseHex(cs.X[0])
	j := &textJudge{ctx: c, sh: sh}
	op := cs.Op
	if i := strings.Index(op, "->"); i >= 0 {
		op = op[:i]
	}
	j.judge(b, op)
}
