package props

import (
	"strconv"
	"strings"

	"verifharness/ref"
)

// expectText builds, independently of the library and of package fmt, the
// complete text fmt would print for a float64 holding n's exact value under
// spec sp (verbs e,E,f,F,g,G; explicit precision, or the default 6 of e/f):
// exact half-even digits from expectFor, the strconv layout rules (%e / %f
// bodies, the %g switch-over "exponent < -4 || exponent >= precision" with
// trailing zeros removed), fmt's '#' post-processing, sign flags and padding.
// ok is false where the rule is not modelled here (%g without a precision is
// C06's shortest form; non-finite values).
func expectText(n ref.Num, sp *fspec) (string, bool) {
	if n.Class != ref.Finite {
		return "", false
	}
	verb := sp.verb
	ex := expectFor(n, verb, sp.prec)
	zero := n.Coef.Sign() == 0
	zeros := func(k int) string {
		if k <= 0 {
			return ""
		}
		return strings.Repeat("0", k)
	}
	expText := func(X int, upper bool) string {
		e := "e"
		if upper {
			e = "E"
		}
		s := "+"
		if X < 0 {
			s = "-"
			X = -X
		}
		d := strconv.Itoa(X)
		if len(d) < 2 {
			d = "0" + d
		}
		return e + s + d
	}
	var body string
	switch verb {
	case 'f', 'F':
		p := sp.prec
		if p < 0 {
			p = 6
		}
		s := ex.R.String()
		if len(s) < p+1 {
			s = zeros(p+1-len(s)) + s
		}
		body = s[:len(s)-p]
		if p > 0 {
			body += "." + s[len(s)-p:]
		}
	case 'e', 'E':
		p := sp.prec
		if p < 0 {
			p = 6
		}
		var digs string
		X := 0
		if zero {
			digs = zeros(p + 1)
		} else {
			digs = ex.R.String()
			X = ex.sciExp
			if len(digs) != p+1 {
				return "", false
			}
		}
		body = digs[:1]
		if p > 0 {
			body += "." + digs[1:]
		}
		body += expText(X, verb == 'E')
	case 'g', 'G':
		if sp.prec < 0 {
			return "", false
		}
		P := sp.prec
		if P == 0 {
			P = 1
		}
		if zero {
			body = "0"
			break
		}
		rs := ex.R.String()
		if len(rs) != P {
			return "", false
		}
		X := ex.scale + (P - 1)
		tr := strings.TrimRight(rs, "0")
		nd := len(tr)
		eprec := P
		if eprec > nd && nd >= X+1 {
			eprec = nd
		}
		if X < -4 || X >= eprec {
			body = tr[:1]
			if nd > 1 {
				body += "." + tr[1:]
			}
			body += expText(X, verb == 'G')
		} else if X >= 0 {
			if nd <= X+1 {
				body = tr + zeros(X+1-nd)
			} else {
				body = tr[:X+1] + "." + tr[X+1:]
			}
		} else {
			body = "0." + zeros(-X-1) + tr
		}
	default:
		return "", false
	}
	if sp.sharp {
		// fmt's post-processing of the '#' flag
		digits := 0
		if verb == 'g' || verb == 'G' {
			digits = sp.prec
			if digits == -1 {
				digits = 6
			}
		}
		num := body
		tail := ""
		hasPoint := false
		sawNonzero := false
	scan:
		for i := 0; i < len(num); i++ {
			switch num[i] {
			case '.':
				hasPoint = true
			case 'e', 'E':
				tail = num[i:]
				num = num[:i]
				break scan
			default:
				if num[i] != '0' {
					sawNonzero = true
				}
				if sawNonzero {
					digits--
				}
			}
		}
		if !hasPoint {
			if num == "0" {
				digits--
			}
			num += "."
		}
		num += zeros(digits)
		body = num + tail
	}
	sign := ""
	switch {
	case n.Neg:
		sign = "-"
	case sp.plus:
		sign = "+"
	case sp.space:
		sign = " "
	}
	out := sign + body
	if sp.width > len(out) {
		pad := sp.width - len(out)
		switch {
		case sp.minus:
			out += strings.Repeat(" ", pad)
		case sp.zero:
			out = sign + zeros(pad) + body
		default:
			out = strings.Repeat(" ", pad) + out
		}
	}
	return out, true
}
