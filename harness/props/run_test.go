package props

import (
	"os"
	"testing"
)

// TestVerif is the single entry point of the monitor binary. It is driven by
// environment variables (see framework.go Main) and is a no-op without them.
func TestVerif(t *testing.T) {
	if os.Getenv("VERIF_PROP") == "" {
		t.Skip("VERIF_PROP not set")
	}
	if rc := Main(); rc != 0 {
		t.Fatalf("verif child exit code %d", rc)
	}
}
