package props

import (
	"encoding/json"
	"errors"
	"fmt"
	"math/big"
	"regexp"
	"strconv"
	"strings"

	"github.com/woodsbury/decimal128"

	"verifharness/gen"
	"verifharness/mon"
	"verifharness/ref"
)

func init() {
	register(&Prop{
		ID: "C13",
		Rule: "MarshalJSON on all C06 value classes (digit length x trailing zeros x exponent class, zeros, specials); UnmarshalJSON on JSON number tokens of any length/exponent from the C05 literal builder restricted to the RFC 8259 grammar, " +
			"on null, on other valid JSON values, and on byte-level mutations; encoding/json round trips through struct, pointer, slice, map and json.Number, and hand-built documents with nesting and whitespace. " +
			"Oracle: RFC 8259 number regex + json.Valid, harness numeral reader (exact value, sign, minimal digits), exact rounded value of the token, receiver-unchanged checks. non-trivial = finite non-zero value / number token needing rounding / non-number input; distinct = distinct (op, input).",
		Run:    runC13,
		Replay: replayC13,
		Assume: []string{"encoding/json of the installed toolchain is the container codec", "harness numeral reader and literal classifier are correct"},
		Cover:  []string{"Decimal.MarshalJSON", "Decimal.UnmarshalJSON", "parseNumber"},
	})
}

var jsonNumberRE = regexp.MustCompile(`^-?(0|[1-9][0-9]*)(\.[0-9]+)?([eE][+-]?[0-9]+)?$`)

type jsonJudge struct {
	ctx *Ctx
	sh  *mon.Shard
}

type jsonBox struct {
	A decimal128.Decimal
	B *decimal128.Decimal
	C []decimal128.Decimal
	D map[string]decimal128.Decimal
}

func sameValueSign(a, b ref.Num) bool {
	if a.Class != b.Class {
		return false
	}
	if a.Class != ref.Finite {
		return a.Class == ref.NaN || a.Neg == b.Neg
	}
	return a.Neg == b.Neg && ref.SameValue(a.Coef, a.Exp, b.Coef, b.Exp)
}

func (j *jsonJudge) judgeMarshal(b ref.Bits) {
	n := ref.Decode(b)
	d := toD(b)
	mk := func(op string) *mon.Case {
		c := j.ctx.NewCase(j.sh, op)
		c.X = []string{b.Hex()}
		return c
	}
	var out []byte
	var err error
	pv, pan := try(func() { out, err = d.MarshalJSON() })
	j.sh.Eval(hash2("MarshalJSON", b.Hi, b.Lo), n.Class != ref.Finite || !n.IsZero())
	if pan {
		j.sh.Violate(mk("MarshalJSON"), "panic", "no panic", fmt.Sprint(pv), "")
		return
	}
	detail := "d=" + n.String()
	if n.Class != ref.Finite {
		var uve *json.UnsupportedValueError
		if err == nil || !errors.As(err, &uve) {
			j.sh.Violate(mk("MarshalJSON"), "error", "*json.UnsupportedValueError", fmt.Sprintf("%q err=%v", out, err), detail)
		}
		// and through encoding/json
		_, err2 := json.Marshal(jsonBox{A: d})
		if err2 == nil || !errors.As(err2, &uve) {
			j.sh.Violate(mk("json.Marshal"), "error", "*json.UnsupportedValueError", fmt.Sprint(err2), detail)
		}
		j.sh.Cell("marshal/special-error")
		return
	}
	text := string(out)
	if err != nil || !jsonNumberRE.MatchString(text) || !json.Valid(out) {
		j.sh.Violate(mk("MarshalJSON"), "syntax", "a valid RFC 8259 number", fmt.Sprintf("%q err=%v", text, err), detail)
		return
	}
	numeral, ok := ref.ReadNumeral(text)
	if !ok {
		j.sh.Violate(mk("MarshalJSON"), "syntax", "a numeral", fmt.Sprintf("%q", text), detail)
		return
	}
	m, k := numeral.Value()
	if !ref.SameValue(m, k, n.Coef, n.Exp) || (numeral.SignChar == '-') != n.Neg {
		j.sh.Violate(mk("MarshalJSON"), "value", "numeral denoting exactly "+n.String(), fmt.Sprintf("%q", text), detail)
		return
	}
	sc, _ := strippedCoef(n.Coef)
	if n.IsZero() {
		sc = ""
	}
	sig := strings.TrimRight(strings.TrimLeft(numeral.Int+numeral.Frac, "0"), "0")
	if sig != sc || (len(numeral.Frac) > 0 && numeral.Frac[len(numeral.Frac)-1] == '0') {
		j.sh.Violate(mk("MarshalJSON"), "digits", "no superfluous digits ("+sc+")", fmt.Sprintf("%q", text), detail)
		return
	}
	if numeral.HasExp {
		j.sh.Cell("marshal/exponent-form")
	} else {
		j.sh.Cell("marshal/positional")
	}
	// decode directly
	var back D
	if e := back.UnmarshalJSON(out); e != nil || !sameValueSign(num(back), n) {
		j.sh.Violate(mk("UnmarshalJSON"), "roundtrip", n.String(), fmt.Sprintf("%v err=%v", num(back), e), detail+" text="+text)
		return
	}
	// through encoding/json in every container
	box := jsonBox{A: d, B: &d, C: []decimal128.Decimal{d, d}, D: map[string]decimal128.Decimal{"k": d}}
	doc, e1 := json.Marshal(box)
	var got jsonBox
	var e2 error
	if e1 == nil {
		e2 = json.Unmarshal(doc, &got)
	}
	j.sh.Eval(hash2("json-containers", b.Hi, b.Lo), !n.IsZero())
	if e1 != nil || e2 != nil || got.B == nil || len(got.C) != 2 || len(got.D) != 1 ||
		!sameValueSign(num(got.A), n) || !sameValueSign(num(*got.B), n) || !sameValueSign(num(got.C[0]), n) || !sameValueSign(num(got.C[1]), n) || !sameValueSign(num(got.D["k"]), n) {
		j.sh.Violate(mk("json-containers"), "roundtrip", "same value and sign in struct, pointer, slice and map", fmt.Sprintf("doc=%s e1=%v e2=%v", clipS(string(doc), 200), e1, e2), detail)
		return
	}
	// via json.Number
	var numTok json.Number
	if e := json.Unmarshal(out, &numTok); e != nil || numTok.String() != text {
		j.sh.Violate(mk("json.Number"), "roundtrip", text, fmt.Sprintf("%q err=%v", numTok, e), detail)
		return
	}
	j.sh.Cell("containers-ok")
	if j.sh.Evals%60000 < 3 {
		j.sh.Sample(mk("MarshalJSON"))
	}
}

// judgeUnmarshal checks UnmarshalJSON on arbitrary input bytes.
func (j *jsonJudge) judgeUnmarshal(in string) {
	mk := func() *mon.Case {
		c := j.ctx.NewCase(j.sh, "UnmarshalJSON")
		c.S = []string{in}
		return c
	}
	def := ref.Mode(currentDefault())
	prior := ref.Bits{Hi: 0x3040_0000_0000_0000, Lo: 77}
	d := toD(prior)
	data := []byte(in)
	var err error
	pv, pan := try(func() { err = d.UnmarshalJSON(data) })
	isNumber := jsonNumberRE.MatchString(in)
	validJSON := json.Valid(data)
	nontriv := !isNumber
	var ex *ref.Exact
	lit := ref.Classify(in)
	zeroLit := false
	if lit.Class == ref.LitNumber || (lit.Class == ref.LitDontCare && !lit.SignedNaN) {
		if lit.Mant.Sign() == 0 {
			zeroLit = true
		} else {
			ex = ref.PrepareScaled(lit.Neg, lit.Mant, lit.Scale())
			nontriv = nontriv || !ex.IsExact
		}
	}
	j.sh.Eval(hashStr("UnmarshalJSON", in, uint64(def)), nontriv)
	if pan {
		j.sh.Violate(mk(), "panic", "no panic", fmt.Sprint(pv), "")
		return
	}
	if string(data) != in {
		j.sh.Violate(mk(), "input-modified", "input unchanged", clipS(string(data), 80), "")
		return
	}
	got := num(d)
	unchanged := toB(d) == prior
	detail := fmt.Sprintf("input=%q def=%v", clipS(in, 120), def)
	valueOK := func() (bool, string) {
		if zeroLit {
			return got.IsZero() && got.Neg == lit.Neg, fmt.Sprintf("zero neg=%v", lit.Neg)
		}
		w1, w2 := ex.Round(def, false), ex.Round(def, true)
		return w1.Matches(got) || w2.Matches(got), w1.String()
	}
	switch {
	case in == "null":
		if err != nil || !unchanged {
			j.sh.Violate(mk(), "null", "nil error, receiver untouched", fmt.Sprintf("%v err=%v", got, err), detail)
		}
		j.sh.Cell("unmarshal/null")
	case isNumber:
		overflow := ex != nil && ex.Round(def, false).Inf
		if overflow {
			// Parse reports ErrRange for this text: an error is required; the receiver may hold +/-Inf or stay untouched
			if err == nil {
				j.sh.Violate(mk(), "error", "an error (value out of range)", got.String(), detail)
			} else if !unchanged && !(got.Class == ref.Inf && got.Neg == lit.Neg) {
				j.sh.Violate(mk(), "value", "receiver untouched or +/-Inf", got.String(), detail)
			}
			j.sh.Cell("unmarshal/number-overflow")
			return
		}
		if err != nil {
			j.sh.Violate(mk(), "rejected-valid", "nil error for a valid JSON number", err.Error(), detail)
			return
		}
		if ok, want := valueOK(); !ok {
			j.sh.Violate(mk(), "value", want, got.String(), detail)
			return
		}
		// agreement with Parse on the same text
		pd, perr := decimal128.Parse(in)
		if perr != nil || !sameValueSign(num(pd), got) {
			j.sh.Violate(mk(), "parse-disagreement", fmt.Sprintf("Parse gives %v err=%v", num(pd), perr), got.String(), detail)
			return
		}
		if ex != nil && !ex.IsExact {
			j.sh.Cell("unmarshal/number-rounded")
		} else {
			j.sh.Cell("unmarshal/number-exact")
		}
	case validJSON:
		// a valid JSON value that is not a number
		if err == nil || !unchanged {
			j.sh.Violate(mk(), "non-number", "error and receiver untouched", fmt.Sprintf("%v err=%v", got, err), detail)
		}
		j.sh.Cell("unmarshal/valid-non-number")
	default:
		// arbitrary bytes: if accepted (and not empty) the value must be the natural reading
		if err == nil && in != "" {
			if ex == nil && !zeroLit {
				j.sh.Violate(mk(), "accepted-garbage", "an error", got.String(), detail)
				return
			}
			if ok, want := valueOK(); !ok {
				j.sh.Violate(mk(), "value", want+" (if accepted)", got.String(), detail)
				return
			}
			j.sh.Cell("unmarshal/lenient-accept")
		} else if err != nil && !unchanged {
			j.sh.Violate(mk(), "receiver-modified", "receiver untouched on error", got.String(), detail)
		} else {
			j.sh.Cell("unmarshal/garbage-rejected")
		}
	}
}

// jsonNumberToken builds a valid RFC 8259 number token.
func jsonNumberToken(r *gen.RNG, allowLong bool) string {
	for tries := 0; tries < 50; tries++ {
		s := buildLiteral(r, allowLong)
		s = strings.TrimPrefix(s, "+")
		if jsonNumberRE.MatchString(s) {
			return s
		}
		// repair the common non-JSON shapes
		neg := strings.HasPrefix(s, "-")
		t := strings.TrimPrefix(s, "-")
		t = strings.ReplaceAll(t, "_", "")
		if strings.HasPrefix(t, ".") {
			t = "0" + t
		}
		t = strings.Replace(t, ".e", ".0e", 1)
		t = strings.Replace(t, ".E", ".0E", 1)
		if strings.HasSuffix(t, ".") {
			t += "0"
		}
		for len(t) > 1 && t[0] == '0' && t[1] >= '0' && t[1] <= '9' {
			t = t[1:]
		}
		if neg {
			t = "-" + t
		}
		if jsonNumberRE.MatchString(t) {
			return t
		}
	}
	return strconv.Itoa(r.Intn(1000))
}

var jsonNonNumbers = []string{`"1"`, `"abc"`, `true`, `false`, `[]`, `[1]`, `{}`, `{"a":1}`, `""`, `"null"`, `[null]`, `"1e5"`, `"NaN"`, `"Infinity"`}

func (j *jsonJudge) judgeDocument(r *gen.RNG) {
	// a hand-built document with whitespace and nesting, numbers from the token builder
	toks := []string{jsonNumberToken(r, false), jsonNumberToken(r, false), jsonNumberToken(r, false), jsonNumberToken(r, false)}
	ws := func() string { return []string{"", " ", "\n", "\t ", "  \r\n"}[r.Intn(5)] }
	doc := "{" + ws() + `"A"` + ws() + ":" + ws() + toks[0] + ws() + "," + ws() + `"B":` + ws() + toks[1] + "," + ws() +
		`"C":[` + ws() + toks[2] + ws() + "," + ws() + "null" + ws() + "]," + `"D":{"x":` + ws() + toks[3] + ws() + "}" + ws() + "}"
	mk := func() *mon.Case {
		c := j.ctx.NewCase(j.sh, "json-document")
		c.S = []string{doc}
		return c
	}
	def := ref.Mode(currentDefault())
	var box jsonBox
	var err error
	pv, pan := try(func() { err = json.Unmarshal([]byte(doc), &box) })
	j.sh.Eval(hashStr("json-document", doc, uint64(def)), true)
	if pan {
		j.sh.Violate(mk(), "panic", "no panic", fmt.Sprint(pv), "")
		return
	}
	anyOverflow := false
	expect := make([]func(ref.Num) bool, 4)
	for i, t := range toks {
		lit := ref.Classify(t)
		if lit.Mant.Sign() == 0 {
			neg := lit.Neg
			expect[i] = func(g ref.Num) bool { return g.IsZero() && g.Neg == neg }
			continue
		}
		ex := ref.PrepareScaled(lit.Neg, lit.Mant, lit.Scale())
		w1, w2 := ex.Round(def, false), ex.Round(def, true)
		if w1.Inf {
			anyOverflow = true
		}
		expect[i] = func(g ref.Num) bool { return w1.Matches(g) || w2.Matches(g) }
	}
	if anyOverflow {
		if err == nil {
			j.sh.Violate(mk(), "error", "an error for an out-of-range number", "nil", clipS(doc, 300))
		}
		j.sh.Cell("document/overflow-error")
		return
	}
	if err != nil || box.B == nil || len(box.C) != 2 || len(box.D) != 1 {
		j.sh.Violate(mk(), "document", "decoded document", fmt.Sprintf("err=%v", err), clipS(doc, 300))
		return
	}
	gots := []ref.Num{num(box.A), num(*box.B), num(box.C[0]), num(box.D["x"])}
	for i := range gots {
		if !expect[i](gots[i]) {
			j.sh.Violate(mk(), "value", "token "+clipS(toks[i], 80)+" rounded correctly", gots[i].String(), clipS(doc, 300))
			return
		}
	}
	// the null element leaves the zero value
	if g := num(box.C[1]); !g.IsZero() || g.Neg {
		j.sh.Violate(mk(), "null", "slice element untouched by null", g.String(), clipS(doc, 300))
		return
	}
	j.sh.Cell("document/ok")
}

func runC13(c *Ctx) {
	// the marshalled text denotes d exactly, so decoding it must give d under every DefaultRoundingMode
	for mdef := ref.Mode(0); mdef < ref.NumModes; mdef++ {
		runC13Marshal(c, mdef)
	}
	runC13Unmarshal(c)
}

func runC13Marshal(c *Ctx, def ref.Mode) {
	c.Parallel("marshal", def, func(sh *mon.Shard, r *gen.RNG) {
		j := &jsonJudge{ctx: c, sh: sh}
		n := c.N(30000, 300000) / 6
		sh.Cell(fmt.Sprintf("marshal-default-mode/%d", def))
		for i := 0; i < n; i++ {
			switch i % 6 {
			case 0:
				j.judgeMarshal(r.AnyBits())
			case 1:
				j.judgeMarshal(ref.Encode(r.Bool(), new(big.Int), r.Exp()))
			case 2: // adjusted exponent around the JSON switch-overs (-7..-5, 19..21)
				nd := r.Range(1, 35)
				c2 := r.Digits(nd)
				if c2.Cmp(ref.Cmax) > 0 {
					c2 = r.Digits(34)
					nd = 34
				}
				X := r.Pick(-8, -7, -6, -5, 18, 19, 20, 21, 22, 0, 5, 6)
				j.judgeMarshal(ref.Encode(r.Bool(), c2, gen.ClampExp(X-(nd-1))))
			case 3: // trailing zeros
				nd := r.Range(1, 35)
				tz := r.Intn(nd)
				c2 := r.Digits(nd - tz)
				c2.Mul(c2, ref.Pow10(tz))
				if c2.Cmp(ref.Cmax) > 0 {
					c2 = big.NewInt(1000)
				}
				j.judgeMarshal(ref.Encode(r.Bool(), c2, r.Exp()))
			default:
				j.judgeMarshal(r.Finite())
			}
		}
	})
}

func runC13Unmarshal(c *Ctx) {
	for def := ref.Mode(0); def < ref.NumModes; def++ {
		c.Parallel("unmarshal", def, func(sh *mon.Shard, r *gen.RNG) {
			j := &jsonJudge{ctx: c, sh: sh}
			if sh.ID == 0 {
				for _, s := range append(append([]string{"null", "", " null", "nul", "NULL", "+1", "1.", ".5", "01", "-", "1e", "--1", "1_0", "NaN", "Infinity", "-Infinity", "0x1", " 1", "1 "}, jsonNonNumbers...), fixedInvalid...) {
					j.judgeUnmarshal(s)
				}
			}
			n := c.N(20000, 200000)
			if def != ref.NearestEven {
				n /= 3
			}
			for i := 0; i < n; i++ {
				switch i % 8 {
				case 0, 1, 2, 3:
					j.judgeUnmarshal(jsonNumberToken(r, i%400 == 0))
				case 4:
					j.judgeUnmarshal(mutate(r, jsonNumberToken(r, false)))
				case 5:
					if r.Bool() {
						j.judgeUnmarshal(jsonNonNumbers[r.Intn(len(jsonNonNumbers))])
					} else {
						j.judgeUnmarshal(mutate(r, jsonNonNumbers[r.Intn(len(jsonNonNumbers))]))
					}
				case 6:
					j.judgeUnmarshal(buildLiteral(r, false))
				default:
					j.judgeDocument(r)
				}
			}
		})
	}
	c.Col.Res.Targets = append(c.Col.Res.Targets,
		mon.Target{Prefix: "marshal/", Total: 3, Min: 3},
		mon.Target{Prefix: "marshal-default-mode/", Total: 6, Min: 6},
		mon.Target{Prefix: "unmarshal/", Total: 8, Min: 7},
		mon.Target{Prefix: "document/", Total: 2, Min: 2},
	)
}

func replayC13(c *Ctx, sh *mon.Shard, cs *mon.Case) {
	j := &jsonJudge{ctx: c, sh: sh}
	switch {
	case len(cs.X) > 0:
		b, _ := ref.ParseHex(cs.X[0])
		j.judgeMarshal(b)
	case cs.Op == "UnmarshalJSON":
		j.judgeUnmarshal(cs.S[0])
	}
}
