package props

import (
	"fmt"
	"math"
	"math/big"

	"github.com/woodsbury/decimal128"

	"verifharness/gen"
	"verifharness/mon"
	"verifharness/ref"
)

func init() {
	register(&Prop{
		ID: "C10",
		Rule: "Decimals at each integer type's bounds, bounds +/-1, bound + fraction, negative fractions in (-1,0), cohort variants, exponents up to 6111; machine integers of every width; big.Int of 1..20000 bits with long 9-runs and exact ties at the 34/35-digit cut; " +
			"rationals with small / large / terminating denominators and terms beyond the Decimal range; d.Rat() of all coefficient/exponent classes. Oracle: big.Int / big.Rat arithmetic (truncation, saturation rules, exact rounding into the member set). " +
			"non-trivial = conversion truncates, saturates or rounds; distinct = distinct (op, argument).",
		Run:    runC10,
		Replay: replayC10,
		Assume: []string{"math/big integer and rational arithmetic is exact"},
		Cover:  []string{"FromInt", "FromInt64", "FromUint64", "FromRat", "Decimal.Int", "Decimal.Int64", "Decimal.Int32", "Decimal.Uint64", "Decimal.Uint32", "Decimal.Rat"},
	})
}

type intJudge struct {
	ctx *Ctx
	sh  *mon.Shard
}

// truncInt returns trunc(value(n)) for a finite n.
func truncInt(n ref.Num) *big.Int {
	t := new(big.Int)
	if n.Exp >= 0 {
		t.Mul(n.Coef, ref.Pow10(n.Exp))
	} else if -n.Exp > 40 {
		// below 1
	} else {
		t.Quo(n.Coef, ref.Pow10(-n.Exp))
	}
	if n.Neg {
		t.Neg(t)
	}
	return t
}

func (j *intJudge) judgeToInt(b ref.Bits, only string) {
	n := ref.Decode(b)
	d := toD(b)
	mk := func(op string) *mon.Case {
		c := j.ctx.NewCase(j.sh, op)
		c.X = []string{b.Hex()}
		return c
	}
	detail := "d=" + n.String()
	var t *big.Int
	frac := false
	if n.Class == ref.Finite {
		t = truncInt(n)
		frac = n.Exp < 0 && !ref.SameValue(new(big.Int).Abs(t), 0, n.Coef, n.Exp)
	}
	type bounded struct {
		op       string
		min, max *big.Int
		unsigned bool
		call     func() (*big.Int, bool)
	}
	bi := func(v int64) *big.Int { return big.NewInt(v) }
	bu := func(v uint64) *big.Int { return new(big.Int).SetUint64(v) }
	ops := []bounded{
		{"Int64", bi(math.MinInt64), bi(math.MaxInt64), false, func() (*big.Int, bool) { v, ok := d.Int64(); return bi(v), ok }},
		{"Int32", bi(math.MinInt32), bi(math.MaxInt32), false, func() (*big.Int, bool) { v, ok := d.Int32(); return bi(int64(v)), ok }},
		{"Uint64", bi(0), bu(math.MaxUint64), true, func() (*big.Int, bool) { v, ok := d.Uint64(); return bu(v), ok }},
		{"Uint32", bi(0), bu(math.MaxUint32), true, func() (*big.Int, bool) { v, ok := d.Uint32(); return bu(uint64(v)), ok }},
	}
	for _, o := range ops {
		if only != "" && only != o.op {
			continue
		}
		var v *big.Int
		var ok bool
		pv, pan := try(func() { v, ok = o.call() })
		nontriv := n.Class == ref.Finite && (frac || t.Cmp(o.min) < 0 || t.Cmp(o.max) > 0)
		j.sh.Eval(hash2(o.op, b.Hi, b.Lo), nontriv)
		if n.Class == ref.NaN {
			if !pan {
				j.sh.Violate(mk(o.op), "panic-expected", "documented panic on NaN", fmt.Sprintf("(%v,%v)", v, ok), detail)
			}
			j.sh.Cell("nan-panic")
			continue
		}
		if pan {
			j.sh.Violate(mk(o.op), "panic", "no panic", fmt.Sprint(pv), detail)
			continue
		}
		got := fmt.Sprintf("(%v,%v)", v, ok)
		if n.Class == ref.Inf {
			w := o.max
			if n.Neg {
				w = o.min
			}
			if ok || v.Cmp(w) != 0 {
				j.sh.Violate(mk(o.op), "saturation", fmt.Sprintf("(%v,false)", w), got, detail)
			}
			j.sh.Cell(o.op + "/inf")
			continue
		}
		switch {
		case t.Cmp(o.max) > 0:
			if ok || v.Cmp(o.max) != 0 {
				j.sh.Violate(mk(o.op), "saturation", fmt.Sprintf("(%v,false)", o.max), got, detail)
			}
			j.sh.Cell(o.op + "/sat-high")
		case t.Cmp(o.min) < 0:
			if ok || v.Cmp(o.min) != 0 {
				j.sh.Violate(mk(o.op), "saturation", fmt.Sprintf("(%v,false)", o.min), got, detail)
			}
			j.sh.Cell(o.op + "/sat-low")
		case o.unsigned && n.Neg:
			// truncation is 0 but the value is negative (or -0): value must be 0, ok may be either
			if v.Sign() != 0 {
				j.sh.Violate(mk(o.op), "value", "(0, either)", got, detail)
			}
			j.sh.Cell(o.op + "/negative-to-zero")
		default:
			if !ok || v.Cmp(t) != 0 {
				j.sh.Violate(mk(o.op), "value", fmt.Sprintf("(%v,true)", t), got, detail)
			}
			if frac {
				j.sh.Cell(o.op + "/truncated")
			} else {
				j.sh.Cell(o.op + "/exact")
			}
		}
	}
	// Int and Rat
	if only == "" || only == "Int" {
		var r *big.Int
		var arg *big.Int
		useArg := j.sh.Evals%3 == 0
		if useArg {
			arg = big.NewInt(12345)
		}
		pv, pan := try(func() { r = d.Int(arg) })
		j.sh.Eval(hash2("Int", b.Hi, b.Lo), frac)
		switch {
		case n.Class != ref.Finite:
			if !pan {
				j.sh.Violate(mk("Int"), "panic-expected", "documented panic on NaN/Inf", fmt.Sprint(r), detail)
			}
			j.sh.Cell("Int/special-panic")
		case pan:
			j.sh.Violate(mk("Int"), "panic", "no panic", fmt.Sprint(pv), detail)
		case r.Cmp(t) != 0 || (useArg && r != arg):
			ts := t.String()
			if len(ts) > 80 {
				ts = ts[:80] + "..."
			}
			j.sh.Violate(mk("Int"), "value", ts, clipS(r.String(), 80), detail)
		default:
			j.sh.Cell("Int/ok")
		}
	}
	if only == "" || only == "Rat" {
		var r *big.Rat
		var arg *big.Rat
		useArg := j.sh.Evals%3 == 1
		if useArg {
			arg = big.NewRat(7, 3)
		}
		pv, pan := try(func() { r = d.Rat(arg) })
		j.sh.Eval(hash2("Rat", b.Hi, b.Lo), n.Class == ref.Finite && n.Exp < 0)
		switch {
		case n.Class != ref.Finite:
			if !pan {
				j.sh.Violate(mk("Rat"), "panic-expected", "documented panic on NaN/Inf", fmt.Sprint(r), detail)
			}
			j.sh.Cell("Rat/special-panic")
		case pan:
			j.sh.Violate(mk("Rat"), "panic", "no panic", fmt.Sprint(pv), detail)
		case r.Cmp(n.Rat()) != 0 || (useArg && r != arg):
			j.sh.Violate(mk("Rat"), "value", "exactly "+n.String(), clipS(r.String(), 120), detail)
		default:
			j.sh.Cell("Rat/ok")
			// FromRat(d.Rat()) is Equal to d
			if currentDefault() == 0 {
				var back D
				_, pan2 := try(func() { back = decimal128.FromRat(r) })
				g := num(back)
				j.sh.Eval(hash2("FromRat(Rat)", b.Hi, b.Lo), true)
				okv := !pan2 && g.Class == ref.Finite && ref.SameValue(g.Coef, g.Exp, n.Coef, n.Exp) && (n.IsZero() || g.Neg == n.Neg)
				if !okv {
					j.sh.Violate(mk("FromRat(Rat)"), "roundtrip", "value of d: "+n.String(), g.String(), detail)
				} else {
					j.sh.Cell("FromRat(Rat)/ok")
				}
			}
		}
	}
	if j.sh.Evals%50000 < 6 {
		j.sh.Sample(mk("Int64"))
	}
}

func clipS(s string, n int) string {
	if len(s) > n {
		return s[:n] + "..."
	}
	return s
}

func (j *intJudge) judgeMachine(v uint64, kind int) {
	ops := []string{"FromInt64", "FromInt32", "FromUint64", "FromUint32"}
	op := ops[kind]
	var d D
	want := new(big.Int)
	pv, pan := try(func() {
		switch kind {
		case 0:
			d = decimal128.FromInt64(int64(v))
			want.SetInt64(int64(v))
		case 1:
			d = decimal128.FromInt32(int32(v))
			want.SetInt64(int64(int32(v)))
		case 2:
			d = decimal128.FromUint64(v)
			want.SetUint64(v)
		default:
			d = decimal128.FromUint32(uint32(v))
			want.SetUint64(uint64(uint32(v)))
		}
	})
	mk := func() *mon.Case {
		c := j.ctx.NewCase(j.sh, op)
		c.F = []uint64{v}
		return c
	}
	j.sh.Eval(hash2(op, v), true)
	if pan {
		j.sh.Violate(mk(), "panic", "no panic", fmt.Sprint(pv), "")
		return
	}
	g := num(d)
	neg := want.Sign() < 0
	ok := g.Class == ref.Finite && g.Neg == neg && ref.SameValue(g.Coef, g.Exp, new(big.Int).Abs(want), 0)
	if !ok {
		j.sh.Violate(mk(), "value", want.String(), g.String(), "")
	}
	j.sh.Cell(op)
}

func (j *intJudge) judgeFromInt(i *big.Int) {
	def := ref.Mode(currentDefault())
	snapshot := new(big.Int).Set(i)
	var d D
	pv, pan := try(func() { d = decimal128.FromInt(i) })
	mk := func() *mon.Case {
		c := j.ctx.NewCase(j.sh, "FromInt")
		c.S = []string{snapshot.Text(16)}
		return c
	}
	var ex *ref.Exact
	if i.Sign() != 0 {
		ex = ref.Prepare(i.Sign() < 0, new(big.Int).Abs(snapshot), ref.One)
	}
	j.sh.Eval(hashStr("FromInt", snapshot.Text(16), uint64(def)), ex != nil && !ex.IsExact)
	if pan {
		j.sh.Violate(mk(), "panic", "no panic", fmt.Sprint(pv), "")
		return
	}
	if i.Cmp(snapshot) != 0 {
		j.sh.Violate(mk(), "input-modified", "argument unchanged", "modified", "")
		return
	}
	g := num(d)
	if ex == nil {
		if !g.IsZero() || g.Neg {
			j.sh.Violate(mk(), "value", "+0", g.String(), "")
		}
		return
	}
	w := ex.Round(ref.NearestEven, false)
	ok := w.Matches(g)
	if !ok && def != ref.NearestEven {
		ok = ex.Round(def, false).Matches(g)
	}
	if !ok {
		j.sh.Violate(mk(), "value", w.String(), g.String(), fmt.Sprintf("bits=%d def=%v", snapshot.BitLen(), def))
		return
	}
	switch {
	case w.Inf:
		j.sh.Cell("FromInt/inf")
	case ex.IsExact:
		j.sh.Cell("FromInt/exact")
	default:
		j.sh.Cell("FromInt/rounded")
		if ex.Guard == 5 && !ex.Sticky {
			j.sh.Cell("FromInt/tie")
		}
	}
	bl := snapshot.BitLen()
	j.sh.Cell(fmt.Sprintf("bitlen/%d", bl/1024))
}

func (j *intJudge) judgeFromRat(r *big.Rat) {
	def := ref.Mode(currentDefault())
	snapshot := new(big.Rat).Set(r)
	var d D
	pv, pan := try(func() { d = decimal128.FromRat(r) })
	mk := func() *mon.Case {
		c := j.ctx.NewCase(j.sh, "FromRat")
		c.S = []string{snapshot.Num().Text(16), snapshot.Denom().Text(16)}
		return c
	}
	j.sh.Eval(hashStr("FromRat", snapshot.Num().Text(16)+"/"+snapshot.Denom().Text(16), uint64(def)), true)
	if pan {
		j.sh.Violate(mk(), "panic", "no panic", fmt.Sprint(pv), "")
		return
	}
	if r.Cmp(snapshot) != 0 {
		j.sh.Violate(mk(), "input-modified", "argument unchanged", "modified", "")
		return
	}
	g := num(d)
	if snapshot.Sign() == 0 {
		if !g.IsZero() {
			j.sh.Violate(mk(), "value", "0", g.String(), "")
		}
		return
	}
	neg := snapshot.Sign() < 0
	an := new(big.Int).Abs(snapshot.Num())
	ex := ref.Prepare(neg, an, snapshot.Denom())
	small := ref.NumDigits(an) <= 34 && ref.NumDigits(snapshot.Denom()) <= 34
	detail := fmt.Sprintf("num bits=%d den bits=%d def=%v", an.BitLen(), snapshot.Denom().BitLen(), def)
	if small {
		// correctly rounded quotient (default mode; nearest-even unless changed)
		w := ex.Round(def, true)
		w2 := ex.Round(def, false)
		if !w.Matches(g) && !w2.Matches(g) {
			j.sh.Violate(mk(), "value", w.String()+" (correctly rounded quotient)", g.String(), detail)
			return
		}
		if ex.IsExact {
			j.sh.Cell("FromRat/small-exact")
		} else {
			j.sh.Cell("FromRat/small-rounded")
		}
		return
	}
	// within 2e-33 relative (one subnormal unit when tiny), Inf/zero only at the range ends
	lo := ex.Round(ref.ToZero, false)
	hi := ex.Round(ref.AwayFromZero, false)
	switch {
	case g.Class == ref.NaN:
		j.sh.Violate(mk(), "nan-from-finite", "a number", g.String(), detail)
	case g.Class == ref.Inf:
		if !hi.Inf || g.Neg != neg {
			j.sh.Violate(mk(), "class", "finite", g.String(), detail)
		}
		j.sh.Cell("FromRat/overflow")
	case lo.Inf:
		j.sh.Violate(mk(), "class", "Inf (beyond MaxFinite)", g.String(), detail)
	default:
		if !g.IsZero() && g.Neg != neg {
			j.sh.Violate(mk(), "sign", "sign of the argument", g.String(), detail)
			return
		}
		gr := g.Rat()
		diff := new(big.Rat).Sub(gr, snapshot)
		diff.Abs(diff)
		bound := new(big.Rat).Abs(snapshot)
		bound.Mul(bound, big.NewRat(2, 1))
		bound.Quo(bound, new(big.Rat).SetInt(ref.Pow10(33)))
		// Where the format's spacing (1e-6176 at the minimum exponent) exceeds that tolerance no Decimal can meet
		// it: the best possible result is allowed for - the nearest Decimal (half a unit) under a nearest
		// DefaultRoundingMode, either neighbour (one unit) under a directed one.
		halfUnit := new(big.Rat).SetFrac(ref.One, new(big.Int).Mul(big.NewInt(2), ref.Pow10(6176)))
		bound.Add(bound, halfUnit)
		if def != ref.NearestEven && def != ref.NearestAway {
			bound.Add(bound, halfUnit)
		}
		if diff.Cmp(bound) > 0 {
			j.sh.Violate(mk(), "value", "within 2e-33 relative: "+lo.String(), g.String(), detail)
			return
		}
		if hi.Matches(g) || lo.Matches(g) {
			j.sh.Cell("FromRat/large-adjacent")
		} else {
			j.sh.Cell("FromRat/large-within-bound")
		}
	}
}

func genBigInt(r *gen.RNG) *big.Int {
	var i *big.Int
	switch r.Intn(8) {
	case 0:
		i = big.NewInt(int64(r.Range(-20, 20)))
	case 1: // tie at the 34/35-digit cut: P * 10^k + 5*10^(k-1)
		p := r.Digits(r.Range(33, 35))
		if p.Cmp(ref.Cmax) > 0 {
			p = r.Digits(34)
		}
		k := r.Range(1, 400)
		i = new(big.Int).Mul(p, ref.Pow10(k))
		t := new(big.Int).Mul(big.NewInt(5), ref.Pow10(k-1))
		i.Add(i, t)
		i.Add(i, big.NewInt(int64(r.Pick(0, 0, 1, -1))))
	case 6: // structured: a 34/35-digit head and a chosen pattern of dropped digits (guard, zero run, digit, zeros/tail),
		// at every leading-digit class (the number of digits dropped in one step depends on the leading digits)
		lead := r.Range(10, 99)
		if r.Chance(1, 3) {
			lead = r.Pick(12, 13, 20, 33, 34, 99)
		}
		head := new(big.Int).Mul(big.NewInt(int64(lead)), ref.Pow10(32))
		head.Add(head, r.BigBelow(ref.Pow10(32)))
		if r.Bool() {
			head.SetBit(head, 0, 0)
		}
		k := r.Pick(5, 5, 4, 6, r.Range(1, 30))
		ds := make([]byte, k)
		for p := range ds {
			ds[p] = '0'
		}
		ds[0] = byte('0' + r.Pick(5, 5, 0, 4, 9))
		if k > 1 {
			pos := 1 + r.Intn(k-1)
			if r.Chance(1, 2) {
				pos = 1
			}
			ds[pos] = byte('0' + r.Range(1, 9))
			if r.Chance(1, 3) {
				for q := pos + 1; q < k; q++ {
					ds[q] = byte('0' + r.Intn(10))
				}
			}
		}
		t, _ := new(big.Int).SetString(string(ds), 10)
		i = new(big.Int).Mul(head, ref.Pow10(k))
		i.Add(i, t)
		if r.Chance(1, 3) {
			i.Mul(i, ref.Pow10(r.Range(1, 200)))
		}
	case 2: // long nine-runs
		k := r.Range(30, 6200)
		i = new(big.Int).Sub(ref.Pow10(k), big.NewInt(int64(r.Range(1, 3))))
	case 3: // around MaxFinite
		i = new(big.Int).Mul(ref.Cmax, ref.Pow10(ref.MaxExp))
		d := new(big.Int).Mul(r.BigBelow(ref.Pow10(20)), ref.Pow10(ref.MaxExp-r.Intn(30)))
		if r.Bool() {
			i.Add(i, d)
		} else {
			i.Sub(i, d)
		}
	case 4:
		bl := r.Range(1, 20000)
		i = r.BigBelow(new(big.Int).Lsh(ref.One, uint(bl)))
	case 5:
		bl := r.Pick(63, 64, 65, 113, 114, 127, 128, 129, 255, 256, 257, 512)
		i = new(big.Int).Lsh(ref.One, uint(bl))
		i.Add(i, big.NewInt(int64(r.Range(-2, 2))))
	default:
		i = r.Digits(r.Range(1, 80))
	}
	if r.Bool() {
		i.Neg(i)
	}
	return i
}

func genRat(r *gen.RNG) *big.Rat {
	nz := func(x *big.Int) *big.Int {
		if x.Sign() == 0 {
			return big.NewInt(1)
		}
		return x
	}
	var n, d *big.Int
	switch r.Intn(8) {
	case 0: // small terms
		n = r.Digits(r.Range(1, 34))
		d = nz(r.Digits(r.Range(1, 34)))
	case 1: // terminating
		n = r.Digits(r.Range(1, 40))
		d = pow2x5(r)
	case 2: // small denominators
		n = r.Digits(r.Range(1, 60))
		d = big.NewInt(int64(r.Pick(3, 7, 9, 11, 13, 97, 999, 1001)))
	case 3: // terms beyond the Decimal range, quotient representable
		k := r.Range(6100, 6400)
		d = new(big.Int).Mul(nz(r.Digits(r.Range(1, 40))), ref.Pow10(k))
		n = new(big.Int).Mul(r.Digits(r.Range(1, 40)), ref.Pow10(k+r.Range(-300, 300)))
	case 4: // results around the range ends
		n = r.Digits(r.Range(1, 40))
		d = nz(r.Digits(r.Range(1, 40)))
		k := r.Pick(6100, 6140, 6145, 6150, 6176, 6177, 6180, 6210, 6220)
		if r.Bool() {
			n.Mul(n, ref.Pow10(k))
		} else {
			d.Mul(d, ref.Pow10(k))
		}
	case 6: // result-driven: the quotient is m * 10^E with a chosen mantissa m next to a rounding boundary and E at
		// a range end (subnormal band: 0.5, 0.5+, 0.58.., 0.99, 1.49, 1.5 units of 1e-6176; overflow: Cmax +/-)
		var m *big.Rat
		E := ref.MinExp
		switch r.Intn(3) {
		case 0: // around one half of the least subnormal and of the next few
			base := int64(r.Pick(0, 0, 0, 1, 2, 9))
			frac := r.Pick(4999, 5000, 5001, 5010, 5100, 5500, 5860, 5870, 5999, 9999, 1, 4000)
			m = new(big.Rat).SetFrac(big.NewInt(base*10000+int64(frac)), big.NewInt(10000))
			if r.Bool() {
				// a long tail behind it
				t := new(big.Rat).SetFrac(r.Digits(r.Range(1, 30)), ref.Pow10(r.Range(35, 60)))
				m.Add(m, t)
			}
		case 1: // full-width mantissa in the subnormal band, some digits to be rounded off
			k := r.Range(1, 33)
			m = new(big.Rat).SetFrac(r.Digits(34), ref.Pow10(k))
		default: // next to the largest finite value
			E = ref.MaxExp
			c := new(big.Int).Sub(ref.Cmax, big.NewInt(int64(r.Range(-3, 3))))
			m = new(big.Rat).SetFrac(new(big.Int).Add(new(big.Int).Mul(c, big.NewInt(10)), big.NewInt(int64(r.Pick(0, 4, 5, 6)))), big.NewInt(10))
		}
		// m * 10^E as numerator/denominator, optionally multiplied through by a common odd factor
		n = new(big.Int).Set(m.Num())
		d = new(big.Int).Set(m.Denom())
		if E < 0 {
			d.Mul(d, ref.Pow10(-E))
		} else {
			n.Mul(n, ref.Pow10(E))
		}
		if r.Bool() {
			f := big.NewInt(int64(r.Pick(3, 7, 9, 11, 1001)))
			n.Mul(n, f)
			d.Mul(d, f)
		}
		if n.Sign() == 0 {
			n.SetInt64(1)
		}
	case 5: // huge bit lengths
		n = r.BigBelow(new(big.Int).Lsh(ref.One, uint(r.Range(1, 20000))))
		d = nz(r.BigBelow(new(big.Int).Lsh(ref.One, uint(r.Range(1, 20000)))))
	default:
		n = r.Digits(r.Range(1, 70))
		d = nz(r.Digits(r.Range(1, 70)))
	}
	if r.Bool() {
		n.Neg(n)
	}
	return new(big.Rat).SetFrac(n, d)
}

func genDecimalForInt(r *gen.RNG) ref.Bits {
	bounds := []string{"9223372036854775807", "9223372036854775808", "2147483647", "2147483648", "18446744073709551615", "4294967295", "0", "1"}
	switch r.Intn(10) {
	case 0, 1, 2: // bound + delta, various cohorts and fractions
		bnd, _ := new(big.Int).SetString(bounds[r.Intn(len(bounds))], 10)
		bnd.Add(bnd, big.NewInt(int64(r.Range(-2, 2))))
		if bnd.Sign() < 0 {
			bnd.Neg(bnd)
		}
		j := r.Intn(14)
		c := new(big.Int).Mul(bnd, ref.Pow10(j))
		switch r.Intn(4) {
		case 0:
		case 1:
			c.Add(c, new(big.Int).Sub(ref.Pow10(j), ref.One)) // .999...
		case 2:
			c.Add(c, r.BigBelow(ref.Pow10(j)))
		default:
			if j > 0 {
				c.Add(c, new(big.Int).Mul(big.NewInt(5), ref.Pow10(j-1))) // .5
			}
		}
		if c.Cmp(ref.Cmax) > 0 {
			c = bnd
			j = 0
		}
		return ref.Encode(r.Bool(), c, -j)
	case 3: // fractions in (-1, 1)
		if r.Bool() {
			// values next to a type bound written with a POSITIVE exponent:
			// floor(bound/10^j) + {-1,0,1} at exponent +j
			bnd, _ := new(big.Int).SetString(bounds[r.Intn(6)], 10)
			j := r.Range(1, ref.NumDigits(bnd)-1)
			c := new(big.Int).Quo(bnd, ref.Pow10(j))
			c.Add(c, big.NewInt(int64(r.Range(-1, 1))))
			if c.Sign() > 0 {
				// a few extra cohort zeros now and then (exponent stays positive or drops to 0)
				k := r.Intn(3)
				if k <= j {
					c.Mul(c, ref.Pow10(k))
					return ref.Encode(r.Bool(), c, j-k)
				}
				return ref.Encode(r.Bool(), c, j)
			}
		}
		c, _ := r.Coef()
		nd := ref.NumDigits(c)
		return ref.Encode(r.Bool(), c, -nd-r.Intn(5))
	case 8: // the decimal point placed inside / right at the ends of the coefficient, for every coefficient class
		c, _ := r.Coef()
		if r.Chance(1, 3) {
			c = new(big.Int).SetUint64(r.U64()) // one word, 19 or 20 digits
		}
		nd := ref.NumDigits(c)
		if nd == 0 {
			return ref.Encode(r.Bool(), c, r.Range(-40, 40))
		}
		e := -r.Pick(nd-1, nd-1, nd, nd+1, nd-2, r.Range(0, nd+2))
		if e > 0 {
			e = 0
		}
		return ref.Encode(r.Bool(), c, e)
	case 4: // large exponents
		c, _ := r.Coef()
		return ref.Encode(r.Bool(), c, r.Pick(ref.MaxExp, 6000, 100, 40, 20, 19, 18, 10, r.Range(0, 60)))
	case 5:
		return r.AnyBits()
	case 6: // coefficients rich in factors of 2 and 5
		c := pow2x5(r)
		return ref.Encode(r.Bool(), c, r.Range(-200, 50))
	case 7: // values with few digits and trailing zeros, negative exponents
		c := r.Digits(r.Range(1, 19))
		z := r.Intn(16)
		c.Mul(c, ref.Pow10(z))
		return ref.Encode(r.Bool(), c, -z-r.Pick(0, 0, 1, 2))
	}
	return r.Finite()
}

func runC10(c *Ctx) {
	c.Parallel("to-int", ref.NearestEven, func(sh *mon.Shard, r *gen.RNG) {
		j := &intJudge{ctx: c, sh: sh}
		n := c.N(60000, 600000)
		for i := 0; i < n; i++ {
			j.judgeToInt(genDecimalForInt(r), "")
			if i%4 == 0 {
				v := r.U64()
				switch r.Intn(4) {
				case 0:
					v = uint64(r.Pick(0, 1, -1, math.MaxInt32, math.MinInt32, math.MaxInt64, math.MinInt64))
				case 1:
					v >>= uint(r.Intn(64))
				}
				j.judgeMachine(v, i/4%4)
			}
		}
	})
	for def := ref.Mode(0); def < ref.NumModes; def++ {
		c.Parallel("from-big", def, func(sh *mon.Shard, r *gen.RNG) {
			j := &intJudge{ctx: c, sh: sh}
			n := c.N(5000, 50000)
			if def != ref.NearestEven {
				n /= 3
			}
			for i := 0; i < n; i++ {
				j.judgeFromInt(genBigInt(r))
				j.judgeFromRat(genRat(r))
			}
		})
	}
	c.Col.Res.Targets = append(c.Col.Res.Targets,
		mon.Target{Prefix: "Int64/", Total: 5, Min: 5},
		mon.Target{Prefix: "Uint64/", Total: 6, Min: 6},
		mon.Target{Prefix: "Int32/", Total: 5, Min: 5},
		mon.Target{Prefix: "Uint32/", Total: 6, Min: 6},
		mon.Target{Prefix: "FromInt/", Total: 4, Min: 4},
		mon.Target{Prefix: "FromRat/", Total: 5, Min: 4},
		mon.Target{Prefix: "bitlen/", Total: 20, Min: 18},
	)
}

func replayC10(c *Ctx, sh *mon.Shard, cs *mon.Case) {
	j := &intJudge{ctx: c, sh: sh}
	switch cs.Op {
	case "FromInt":
		i, _ := new(big.Int).SetString(cs.S[0], 16)
		j.judgeFromInt(i)
	case "FromRat":
		n, _ := new(big.Int).SetString(cs.S[0], 16)
		d, _ := new(big.Int).SetString(cs.S[1], 16)
		j.judgeFromRat(new(big.Rat).SetFrac(n, d))
	case "FromInt64", "FromInt32", "FromUint64", "FromUint32":
		kind := map[string]int{"FromInt64": 0, "FromInt32": 1, "FromUint64": 2, "FromUint32": 3}[cs.Op]
		j.judgeMachine(cs.F[0], kind)
	default:
		b, _ := ref.ParseHex(cs.X[0])
		op := cs.Op
		if op == "FromRat(Rat)" {
			op = "Rat"
		}
		j.judgeToInt(b, op)
	}
}
