package props

import (
	"testing"

	"verifharness/gen"
)

func TestNearMidpointCube(t *testing.T) {
	r := gen.NewRNG(7)
	ok := 0
	for i := 0; i < 2000; i++ {
		x, e, d, good := nearMidpointCube(r)
		if good {
			ok++
			if ok < 6 {
				t.Logf("x=%s e=%d dist=%g", x, e, d)
			}
		}
	}
	t.Logf("ok=%d of 2000", ok)
	if ok < 400 {
		t.Fatalf("generator rarely succeeds: %d", ok)
	}
}
