package props

import (
	"fmt"
	"math"
	"math/big"

	"github.com/woodsbury/decimal128"

	"verifharness/gen"
	"verifharness/mon"
	"verifharness/ref"
)

func init() {
	register(&Prop{
		ID: "C08",
		Rule: "finite d with dp aligned to every digit position of d (3 left of the leading digit .. 3 right of the last), half patterns over several dropped digits (...5000, ...4999, ...5001), carries into a new leading digit, " +
			"dp in -7000..7000 with d at both exponent ends (quantum exponent above 6111), dp at the int extremes, zeros and specials. Each (d,dp) is judged for Round in 6 modes, Ceil, Floor, and for dp=0 the package functions. " +
			"Oracle: exact quantisation in big.Int (with the pinned 'below a tenth of the quantum gives signed zero' rule for Round), sign kept, idempotence, |result-d| <= quantum. " +
			"non-trivial = d is not already a multiple of the quantum; distinct = distinct (op,d,dp,mode).",
		Run:    runC08,
		Replay: replayC08,
		Assume: []string{"harness BID decoder and big.Int arithmetic are correct"},
		Cover:  []string{"Decimal.Round", "Decimal.Ceil", "Decimal.Floor", "RoundingMode.round", "Round", "Trunc", "Ceil", "Floor"},
	})
}

type quantJudge struct {
	ctx *Ctx
	sh  *mon.Shard
}

// quantExpect describes the exact expected result of a quantisation.
type quantExpect struct {
	unchanged bool // result has d's value
	zero      bool // signed zero
	inf       bool
	R         *big.Int // otherwise R*10^E
	E         int
}

func (q quantExpect) String(neg bool) string {
	s := "+"
	if neg {
		s = "-"
	}
	switch {
	case q.unchanged:
		return "value of d unchanged"
	case q.zero:
		return s + "0"
	case q.inf:
		return s + "Inf"
	}
	return fmt.Sprintf("%s%se%d", s, q.R.String(), q.E)
}

// quantise computes the expected result. kind: 0 Round(mode), 1 Ceil, 2 Floor.
func quantise(n ref.Num, dp int, kind int, m ref.Mode) (quantExpect, int, bool) {
	// E = -dp, clipped far outside the format
	var E int
	switch {
	case dp < -100000:
		E = 100000
	case dp > 100000:
		E = -100000
	default:
		E = -dp
	}
	k := E - n.Exp // digits to drop
	if k <= 0 {
		return quantExpect{unchanged: true}, 0, false
	}
	nd := ref.NumDigits(n.Coef)
	var q, r *big.Int
	if k > nd+1 {
		q, r = new(big.Int), n.Coef
	} else {
		q, r = new(big.Int).QuoRem(n.Coef, ref.Pow10(k), new(big.Int))
	}
	if r.Sign() == 0 {
		return quantExpect{unchanged: true}, k, false
	}
	up := false
	switch kind {
	case 0:
		if nd < k {
			// below one tenth of the quantum: signed zero in every mode (pinned by the repository's vectors)
			return quantExpect{zero: true}, k, true
		}
		// guard digit and sticky
		var g int
		var sticky bool
		if k > nd+1 {
			g, sticky = 0, true
		} else {
			gq, gr := new(big.Int).QuoRem(r, ref.Pow10(k-1), new(big.Int))
			g = int(gq.Int64())
			sticky = gr.Sign() != 0
		}
		switch m {
		case ref.NearestEven:
			up = g > 5 || (g == 5 && (sticky || q.Bit(0) == 1))
		case ref.NearestAway:
			up = g >= 5
		case ref.ToZero:
		case ref.AwayFromZero:
			up = true
		case ref.ToNegInf:
			up = n.Neg
		case ref.ToPosInf:
			up = !n.Neg
		}
	case 1: // Ceil: toward +Inf
		up = !n.Neg
	case 2: // Floor: toward -Inf
		up = n.Neg
	}
	R := new(big.Int).Set(q)
	if up {
		R.Add(R, ref.One)
	}
	if R.Sign() == 0 {
		return quantExpect{zero: true}, k, true
	}
	// representable?
	if E > ref.MaxExp {
		sh := E - ref.MaxExp
		if sh > 40 {
			return quantExpect{inf: true}, k, true
		}
		t := new(big.Int).Mul(R, ref.Pow10(sh))
		if t.Cmp(ref.Cmax) > 0 {
			return quantExpect{inf: true}, k, true
		}
	}
	return quantExpect{R: R, E: E}, k, true
}

func (j *quantJudge) matches(q quantExpect, n ref.Num, got ref.Num) bool {
	switch {
	case q.inf:
		return got.Class == ref.Inf && got.Neg == n.Neg
	case got.Class != ref.Finite || got.Neg != n.Neg:
		return false
	case q.unchanged:
		return ref.SameValue(got.Coef, got.Exp, n.Coef, n.Exp)
	case q.zero:
		return got.Coef.Sign() == 0
	}
	return ref.SameValue(got.Coef, got.Exp, q.R, q.E)
}

func (j *quantJudge) judge(b ref.Bits, dp int, only string, onlyMode int) {
	n := ref.Decode(b)
	d := toD(b)
	mk := func(op string, mode int) *mon.Case {
		c := j.ctx.NewCase(j.sh, op)
		c.X = []string{b.Hex()}
		c.N = []int64{int64(dp)}
		c.Mode = mode
		return c
	}
	type call struct {
		op   string
		kind int
		mode ref.Mode
		f    func() D
	}
	var calls []call
	for m := ref.Mode(0); m < ref.NumModes; m++ {
		m := m
		calls = append(calls, call{"Round", 0, m, func() D { return d.Round(dp, rm(m)) }})
	}
	calls = append(calls,
		call{"Ceil", 1, -1, func() D { return d.Ceil(dp) }},
		call{"Floor", 2, -1, func() D { return d.Floor(dp) }})
	for _, cl := range calls {
		if only != "" && (only != cl.op || (cl.kind == 0 && onlyMode != int(cl.mode))) {
			continue
		}
		var r D
		pv, pan := try(func() { r = cl.f() })
		if n.Class != ref.Finite {
			j.sh.Eval(hash2(cl.op, b.Hi, b.Lo, uint64(dp), uint64(cl.mode)), false)
			if pan {
				j.sh.Violate(mk(cl.op, int(cl.mode)), "panic", "no panic", fmt.Sprint(pv), "")
			} else if toB(r) != b {
				j.sh.Violate(mk(cl.op, int(cl.mode)), "special", "NaN/Inf returned unchanged (bit-identical)", num(r).String(), "d="+n.String())
			}
			j.sh.Cell("special-passthrough")
			continue
		}
		if n.IsZero() {
			j.sh.Eval(hash2(cl.op, b.Hi, b.Lo, uint64(dp), uint64(cl.mode)), false)
			g := num(r)
			if pan {
				j.sh.Violate(mk(cl.op, int(cl.mode)), "panic", "no panic", fmt.Sprint(pv), "")
			} else if !g.IsZero() || g.Neg != n.Neg {
				j.sh.Violate(mk(cl.op, int(cl.mode)), "value", fmt.Sprintf("zero neg=%v", n.Neg), g.String(), "d="+n.String())
			}
			j.sh.Cell("zero-input")
			continue
		}
		exp, k, changed := quantise(n, dp, cl.kind, cl.mode)
		j.sh.Eval(hash2(cl.op, b.Hi, b.Lo, uint64(dp), uint64(cl.mode)), changed)
		if pan {
			j.sh.Violate(mk(cl.op, int(cl.mode)), "panic", "no panic", fmt.Sprint(pv), "")
			continue
		}
		got := num(r)
		detail := fmt.Sprintf("d=%v dp=%d mode=%v", n, dp, cl.mode)
		if !j.matches(exp, n, got) {
			kind := "value"
			if got.Class == ref.NaN {
				kind = "nan-from-finite"
			}
			j.sh.Violate(mk(cl.op, int(cl.mode)), kind, exp.String(n.Neg), got.String(), detail)
			continue
		}
		// idempotence under the same call
		if got.Class == ref.Finite {
			var r2 D
			_, pan2 := try(func() {
				switch cl.kind {
				case 0:
					r2 = r.Round(dp, rm(cl.mode))
				case 1:
					r2 = r.Ceil(dp)
				default:
					r2 = r.Floor(dp)
				}
			})
			g2 := num(r2)
			if pan2 || g2.Class != ref.Finite || g2.Neg != got.Neg || !ref.SameValue(g2.Coef, g2.Exp, got.Coef, got.Exp) {
				j.sh.Violate(mk(cl.op, int(cl.mode)), "idempotence", "same value when applied again: "+got.String(), g2.String(), detail)
				continue
			}
		}
		// cells
		if changed {
			kk := k
			if kk > 36 {
				kk = 37
			}
			if cl.kind == 0 {
				j.sh.Cell(fmt.Sprintf("drop/%d/m%d", kk, int(cl.mode)))
			} else {
				j.sh.Cell(fmt.Sprintf("drop/%d/%s", kk, cl.op))
			}
			switch {
			case exp.inf:
				j.sh.Cell("result/inf")
			case exp.zero:
				j.sh.Cell("result/zero")
			case !exp.unchanged && ref.NumDigits(exp.R) > ref.NumDigits(n.Coef)-k && k <= ref.NumDigits(n.Coef):
				j.sh.Cell("result/carry-new-digit")
			}
			if -dp > ref.MaxExp || dp < -100000 {
				j.sh.Cell("result/quantum-exponent-above-6111")
			}
		} else {
			j.sh.Cell("already-multiple")
		}
	}
	if dp > 100000 || dp < -100000 {
		j.sh.Cell("dp-extreme")
	}
	// package-level functions equal the methods at dp = 0
	if dp == 0 && (only == "" || only == "pkg") {
		pairs := []struct {
			name string
			a, b func() D
		}{
			{"Round", func() D { return decimal128.Round(d) }, func() D { return d.Round(0, decimal128.ToNearestAway) }},
			{"Trunc", func() D { return decimal128.Trunc(d) }, func() D { return d.Round(0, decimal128.ToZero) }},
			{"Ceil", func() D { return decimal128.Ceil(d) }, func() D { return d.Ceil(0) }},
			{"Floor", func() D { return decimal128.Floor(d) }, func() D { return d.Floor(0) }},
		}
		for _, p := range pairs {
			var x, y D
			pv, pan := try(func() { x, y = p.a(), p.b() })
			j.sh.Eval(hash2("pkg"+p.name, b.Hi, b.Lo), n.Class == ref.Finite && n.Exp < 0)
			if pan {
				j.sh.Violate(mk("pkg", -1), "panic", "no panic", fmt.Sprint(pv), p.name)
			} else if toB(x) != toB(y) {
				j.sh.Violate(mk("pkg", -1), "pkg-vs-method", "package "+p.name+" bit-equal to the method form: "+num(y).String(), num(x).String(), "d="+n.String())
			}
		}
		j.sh.Cell("pkg-functions")
	}
	if j.sh.Evals%120000 < 8 {
		j.sh.Sample(mk("Round", 0))
	}
}

func (j *quantJudge) genCase(r *gen.RNG, i int) (ref.Bits, int) {
	neg := r.Bool()
	switch i % 12 {
	case 0, 1, 2: // dp aligned to every digit position
		c, _ := r.Coef()
		if c.Sign() == 0 {
			c = big.NewInt(int64(r.Range(1, 99)))
		}
		e := r.Range(-60, 60)
		if r.Chance(1, 6) {
			e = r.Exp()
		}
		nd := ref.NumDigits(c)
		k := r.Range(-3, nd+3) // digits to drop
		return ref.Encode(neg, c, e), -(e + k)
	case 3, 4: // half patterns over several dropped digits
		keep := r.Digits(r.Range(1, 25))
		k := r.Range(1, 9)
		var tail *big.Int
		half := new(big.Int).Mul(big.NewInt(5), ref.Pow10(k-1))
		switch r.Intn(5) {
		case 0:
			tail = half
		case 1:
			tail = new(big.Int).Sub(half, ref.One)
		case 2:
			tail = new(big.Int).Add(half, ref.One)
		case 3:
			tail = big.NewInt(1)
		default:
			tail = new(big.Int).Sub(ref.Pow10(k), ref.One)
		}
		if r.Chance(1, 5) {
			keep = new(big.Int).Sub(ref.Pow10(r.Range(1, 25)), ref.One) // 99..9 -> carry into a new digit
		}
		c := new(big.Int).Mul(keep, ref.Pow10(k))
		c.Add(c, tail)
		e := r.Range(-40, 40)
		return ref.Encode(neg, c, e), -(e + k)
	case 5: // dp over a wide range, d at both exponent ends
		c, _ := r.Coef()
		if c.Sign() == 0 {
			c = big.NewInt(5)
		}
		var e int
		if r.Bool() {
			e = ref.MaxExp - r.Intn(60)
		} else {
			e = ref.MinExp + r.Intn(60)
		}
		dp := r.Range(-7000, 7000)
		if r.Bool() {
			dp = -(e + r.Range(-3, 40))
		}
		return ref.Encode(neg, c, e), dp
	case 6: // quantum exponent above 6111 while the value is representable
		c := r.Digits(r.Range(1, 35))
		if c.Cmp(ref.Cmax) > 0 {
			c = r.Digits(34)
		}
		e := ref.MaxExp - r.Intn(36)
		k := r.Range(1, ref.NumDigits(c)+2)
		return ref.Encode(neg, c, e), -(e + k)
	case 7: // int extremes
		c, _ := r.Coef()
		if c.Sign() == 0 {
			c = big.NewInt(1)
		}
		dps := []int{math.MinInt, math.MinInt + 1, math.MinInt + 5, math.MinInt + 6175, math.MinInt + 6176, math.MinInt + 6177, math.MaxInt - 6176, math.MaxInt - 1, math.MaxInt,
			-1 << 31, 1 << 31, -1<<31 - 1, 1<<31 - 1, -32768, 32767, -32769, 32768, -65536, 65536, -100000, 100000, -1000000, 1000000}
		return ref.Encode(neg, c, r.Exp()), dps[r.Intn(len(dps))]
	case 8: // dp = 0 with fractional values (package functions)
		c, _ := r.Coef()
		return ref.Encode(neg, c, r.Range(-40, 5)), 0
	case 10: // structured discarded part of any length: [guard digit][z zeros][digit][tail], z up to the whole width
		k := r.Range(1, 33)
		keepDigits := r.Range(1, 34-k)
		if r.Chance(1, 3) {
			keepDigits = 34 - k
		}
		keep := r.Digits(keepDigits)
		if r.Chance(1, 6) {
			keep = new(big.Int).Sub(ref.Pow10(keepDigits), ref.One)
		}
		if r.Bool() {
			keep.SetBit(keep, 0, 0) // even kept part: a tie would round down
			if keep.Sign() == 0 {
				keep.SetInt64(2)
			}
		}
		ds := make([]byte, k)
		for p := range ds {
			ds[p] = '0'
		}
		pos := 0
		if r.Bool() { // explicit guard digit first
			ds[0] = byte('0' + r.Pick(0, 4, 5, 5, 9, r.Intn(10)))
			pos = 1
		}
		if pos < k {
			z := r.Intn(k - pos) // run of zeros
			if r.Chance(1, 3) {
				z = r.Pick(0, 1, 3, 7, 8, 9, 15, 16, 17, 18, 19) % (k - pos)
			}
			pos += z
			ds[pos] = byte('0' + r.Pick(1, 4, 5, 5, 6, 9))
			pos++
			switch r.Intn(4) {
			case 0: // zeros to the end
			case 1:
				ds[k-1] = '1'
			case 2:
				for ; pos < k; pos++ {
					ds[pos] = '9'
				}
			default:
				for ; pos < k; pos++ {
					ds[pos] = byte('0' + r.Intn(10))
				}
			}
		}
		tail, _ := new(big.Int).SetString(string(ds), 10)
		if k >= 21 && r.Chance(1, 4) {
			// the part below the guard digit is an exact multiple of 2^64 (binary image of the dropped decimal tail)
			g := big.NewInt(int64(r.Pick(0, 0, 5, 5, 4, 9)))
			t := new(big.Int).Lsh(big.NewInt(int64(r.Range(1, 1<<20))), 64)
			for t.Cmp(ref.Pow10(k-1)) >= 0 {
				t.Rsh(t, 1)
			}
			if t.BitLen() <= 64 {
				t.Lsh(ref.One, 64)
			}
			if t.Cmp(ref.Pow10(k-1)) < 0 {
				tail = new(big.Int).Add(new(big.Int).Mul(g, ref.Pow10(k-1)), t)
			}
		}
		c := new(big.Int).Mul(keep, ref.Pow10(k))
		c.Add(c, tail)
		e := r.Pick(r.Range(-40, 40), r.Range(-40, 40), r.Exp())
		return ref.Encode(neg, c, e), -(e + k)
	case 9: // specials and zeros
		if r.Bool() {
			return ref.Encode(neg, new(big.Int), r.Exp()), r.Range(-50, 50)
		}
		b := r.AnyBits()
		return b, r.Pick(0, 0, r.Range(-7000, 7000))
	}
	b := r.Finite()
	n := ref.Decode(b)
	return b, -(n.Exp + r.Range(-5, 40))
}

func runC08(c *Ctx) {
	c.Parallel("quantise", ref.NearestEven, func(sh *mon.Shard, r *gen.RNG) {
		j := &quantJudge{ctx: c, sh: sh}
		n := c.N(150000, 1500000)
		for i := 0; i < n; i++ {
			b, dp := j.genCase(r, i)
			j.judge(b, dp, "", 0)
		}
	})
	c.Col.Res.Targets = append(c.Col.Res.Targets,
		mon.Target{Prefix: "drop/", Total: 37 * 8, Min: 280},
		mon.Target{Prefix: "result/", Total: 4, Min: 4},
	)
}

func replayC08(c *Ctx, sh *mon.Shard, cs *mon.Case) {
	b, _ := ref.ParseHex(cs.X[0])
	j := &quantJudge{ctx: c, sh: sh}
	j.judge(b, int(cs.N[0]), cs.Op, cs.Mode)
}
