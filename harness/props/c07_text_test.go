package props

import (
	"fmt"
	"math"
	"math/big"
	"testing"

	"verifharness/gen"
	"verifharness/ref"
)

// The text model must agree with the installed toolchain's fmt on every value
// a float64 holds exactly.
func TestExpectTextAgainstFmt(t *testing.T) {
	r := gen.NewRNG(12345)
	n, bad := 0, 0
	for i := 0; i < 400000; i++ {
		sp := makeSpec(fmtVerbs[r.Intn(6)], r.Intn(32), r.Pick(-1, r.Range(0, 40)), r.Pick(-1, r.Range(0, 40), r.Range(0, 8)))
		b, f, ok := float64Exact(r, r.Chance(1, 3))
		if i%50 == 0 {
			f = 0
			if i%100 == 0 {
				f = math.Copysign(0, -1)
			}
			b, ok = ref.Encode(math.Signbit(f), new(big.Int), r.Range(-5, 5)), true
		}
		if !ok {
			continue
		}
		want := fmt.Sprintf("%"+sp.spec, f)
		got, ok := expectText(ref.Decode(b), &sp)
		if !ok {
			continue
		}
		n++
		if got != want {
			bad++
			if bad < 20 {
				t.Errorf("spec %%%s value %v: model %q, fmt %q", sp.spec, f, got, want)
			}
		}
	}
	if n < 100000 {
		t.Fatalf("only %d comparisons", n)
	}
	t.Logf("%d comparisons, %d mismatches", n, bad)
}
