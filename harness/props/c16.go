package props

import (
	"fmt"
	"math/big"

	"github.com/woodsbury/decimal128"

	"verifharness/gen"
	"verifharness/mon"
	"verifharness/ref"
)

func init() {
	register(&Prop{
		ID: "C16",
		Rule: "arguments per function: magnitudes 1e-6176..1e-40 (tiny) and 1e-40..1e5 (dense), both signs; near 1 for logarithms (1 +/- k*10^-j, 0.9..9, 1.0..01); near 0 and near -1 for Expm1/Log1p; exact-power arguments and their +/-1-unit neighbours; " +
			"threshold bands (|x| ~ 14.2k Exp, ~20.5k Exp2, ~6.1k Exp10) and integers through the admissible range; logarithms over every decimal exponent x leading-two-digit table slot 10..99; cohort variants. Under each DefaultRoundingMode (6 phases). " +
			"Oracle: 1100-bit big.Float reference (error < 2^-900), error measured in units of the format spacing at the true result; exact results required where the true value is a member (nearest-even default). " +
			"non-trivial = every finite in-domain argument other than the trivial zero/one; distinct = distinct (function, argument bits).",
		Run:    runC16,
		Replay: replayC16,
		Assume: []string{"big.Float reference functions (harness/ref/trans.go) are accurate to 2^-900 relative; checked against math.* and inverse identities in ref's own tests"},
		Cover:  []string{"Exp", "Exp2", "Exp10", "Expm1", "Log", "Log2", "Log10", "Log1p", "decomposed192.epow", "decomposed192.epowm1", "decomposed192.log", "decomposed192.log1p", "decomposed192.powexp10", "decomposed192.quo", "decomposed192.rcp"},
	})
}

type transFn struct {
	name string
	f    func(D) D
	kind int // 0 exp-like, 1 expm1, 2 log-like, 3 log1p
	base int // 0 e, 2, 10
}

var transFns = []transFn{
	{"Exp", decimal128.Exp, 0, 0}, {"Exp2", decimal128.Exp2, 0, 2}, {"Exp10", decimal128.Exp10, 0, 10}, {"Expm1", decimal128.Expm1, 1, 0},
	{"Log", decimal128.Log, 2, 0}, {"Log2", decimal128.Log2, 2, 2}, {"Log10", decimal128.Log10, 2, 10}, {"Log1p", decimal128.Log1p, 3, 0},
}

type transJudge struct {
	ctx *Ctx
	sh  *mon.Shard
}

var (
	fCmaxP1    = new(big.Float).SetPrec(ref.TransPrec).SetInt(ref.CmaxP1)
	fCmaxP1d10 = new(big.Float).SetPrec(ref.TransPrec).SetInt(ref.CmaxP1d10)
	fTen       = new(big.Float).SetPrec(ref.TransPrec).SetInt64(10)
	fOne       = new(big.Float).SetPrec(ref.TransPrec).SetInt64(1)
	fGuardLo   = func() *big.Float { // 1 - 1e-100
		g := new(big.Float).SetPrec(ref.TransPrec).Quo(fOne, new(big.Float).SetPrec(ref.TransPrec).SetInt(ref.Pow10(100)))
		return g.Sub(fOne, g)
	}()
	fGuardHi = func() *big.Float {
		g := new(big.Float).SetPrec(ref.TransPrec).Quo(fOne, new(big.Float).SetPrec(ref.TransPrec).SetInt(ref.Pow10(100)))
		return g.Add(fOne, g)
	}()
)

func pow10F(e int) *big.Float {
	f := new(big.Float).SetPrec(ref.TransPrec)
	if e >= 0 {
		return f.SetInt(ref.Pow10(e))
	}
	return f.Quo(fOne, new(big.Float).SetPrec(ref.TransPrec).SetInt(ref.Pow10(-e)))
}

// spacingExp returns the finest admissible exponent E of |t| (t != 0): the
// format spacing at t is 10^E. E may exceed MaxExp (t beyond the finite range).
func spacingExp(t *big.Float) int {
	a := new(big.Float).SetPrec(ref.TransPrec).Abs(t)
	b := a.MantExp(nil)
	d := int(float64(b-1) * 0.30102999566398120)
	E := d - 34
	if E < ref.MinExp {
		E = ref.MinExp
	}
	// The reference t carries a relative error far below 1e-100. Exactly at the seam (Cmax+1)/10 * 10^k - where
	// the spacing changes by a factor of ten and which a true result can hit exactly, e.g. (2e-5)^110 = 2^110e-550 -
	// an approximation that falls a hair below the seam would select the finer spacing although the neighbour
	// above the true value is a whole coarse unit away. t is therefore placed by its value times (1 + 1e-100):
	// within that relative distance below a seam the coarser spacing (the one on the seam and above) applies.
	q := new(big.Float).SetPrec(ref.TransPrec).Quo(a, pow10F(E))
	q.Mul(q, fGuardHi)
	for q.Cmp(fCmaxP1) >= 0 {
		q.Quo(q, fTen)
		E++
	}
	for E > ref.MinExp && q.Cmp(fCmaxP1d10) < 0 {
		q.Mul(q, fTen)
		E--
	}
	return E
}

// ulpError returns |g - t| / 10^E as a big.Float.
func ulpError(g ref.Num, t *big.Float, E int) *big.Float {
	gf := ref.FloatOf(g)
	d := new(big.Float).SetPrec(ref.TransPrec).Sub(gf, t)
	d.Abs(d)
	return d.Quo(d, pow10F(E))
}

type transRef struct {
	t        *big.Float // reference value (nil when decided by magnitude alone)
	hugePos  bool       // true result beyond every finite Decimal, positive
	tinyPos  bool       // true result positive and far below the smallest subnormal
	minusOne bool       // Expm1 of a very negative argument: -1 + negligible
	exact    *big.Rat   // when the true result is exactly this rational (decided exactly)
	exactNeg bool       // sign for an exact zero
}

// exactPow2 returns n if x == 2^n exactly for -48 <= n <= 113.
func exactLog2(xn ref.Num) (int, bool) {
	v := xn.Rat()
	if v.Sign() <= 0 {
		return 0, false
	}
	num, den := v.Num(), v.Denom()
	isPow2 := func(z *big.Int) (int, bool) {
		if z.Sign() <= 0 {
			return 0, false
		}
		n := z.BitLen() - 1
		if new(big.Int).Lsh(ref.One, uint(n)).Cmp(z) == 0 {
			return n, true
		}
		return 0, false
	}
	if den.Cmp(ref.One) == 0 {
		return isPow2(num)
	}
	if num.Cmp(ref.One) == 0 {
		n, ok := isPow2(den)
		return -n, ok
	}
	return 0, false
}

func exactLog10(xn ref.Num) (int, bool) {
	c := new(big.Int).Set(xn.Coef)
	e := xn.Exp
	if c.Sign() <= 0 {
		return 0, false
	}
	q, m := new(big.Int), new(big.Int)
	for {
		q.QuoRem(c, ref.Ten, m)
		if m.Sign() != 0 {
			break
		}
		c.Set(q)
		e++
	}
	if c.Cmp(ref.One) == 0 {
		return e, true
	}
	return 0, false
}

// integerValue returns the integer value of xn if it is an integer of
// magnitude below 1e6.
func integerValue(xn ref.Num) (int, bool) {
	v := xn.Rat()
	if !v.IsInt() {
		return 0, false
	}
	n := v.Num()
	if !n.IsInt64() || n.Int64() > 1_000_000 || n.Int64() < -1_000_000 {
		return 0, false
	}
	return int(n.Int64()), true
}

func (fn *transFn) reference(xn ref.Num) (transRef, bool) {
	var r transRef
	x := ref.FloatOf(xn)
	switch fn.kind {
	case 0, 1:
		if xn.IsZero() {
			if fn.kind == 1 {
				r.exact, r.exactNeg = new(big.Rat), xn.Neg
			} else {
				r.exact = big.NewRat(1, 1)
			}
			return r, true
		}
		y := x
		switch fn.base {
		case 2:
			y = new(big.Float).SetPrec(ref.TransPrec).Mul(x, ref.Ln2())
		case 10:
			y = new(big.Float).SetPrec(ref.TransPrec).Mul(x, ref.Ln10())
		}
		lim := big.NewFloat(50000)
		if y.Cmp(lim) > 0 {
			r.hugePos = true
			return r, true
		}
		if y.Cmp(new(big.Float).Neg(lim)) < 0 {
			if fn.kind == 1 {
				r.minusOne = true
			} else {
				r.tinyPos = true
			}
			return r, true
		}
		if fn.kind == 1 {
			r.t = ref.Expm1(y)
		} else {
			r.t = ref.Exp(y)
			// exactly representable powers
			if n, ok := integerValue(xn); ok {
				switch fn.base {
				case 10:
					if n >= ref.MinExp && n <= ref.MaxExp+34 {
						if n >= 0 {
							r.exact = new(big.Rat).SetInt(ref.Pow10(n))
						} else {
							r.exact = new(big.Rat).SetFrac(ref.One, ref.Pow10(-n))
						}
					}
				case 2:
					if n >= 0 && n <= 113 {
						r.exact = new(big.Rat).SetInt(new(big.Int).Lsh(ref.One, uint(n)))
					} else if n < 0 && n >= -48 {
						r.exact = new(big.Rat).SetFrac(ref.One, new(big.Int).Lsh(ref.One, uint(-n)))
					}
				}
			}
		}
		return r, true
	case 2:
		if xn.Neg || xn.IsZero() {
			return r, false // out of domain: C15's business
		}
		l := ref.Log(x)
		switch fn.base {
		case 2:
			l.Quo(l, ref.Ln2())
			if n, ok := exactLog2(xn); ok {
				r.exact = new(big.Rat).SetInt64(int64(n))
			}
		case 10:
			l.Quo(l, ref.Ln10())
			if n, ok := exactLog10(xn); ok {
				r.exact = new(big.Rat).SetInt64(int64(n))
			}
		default:
			if n, ok := exactLog10(xn); ok && n == 0 {
				r.exact = new(big.Rat)
			}
		}
		r.t = l
		return r, true
	default: // log1p
		if xn.IsZero() {
			r.exact, r.exactNeg = new(big.Rat), xn.Neg
			return r, true
		}
		// domain x > -1
		if xn.Neg && x.Cmp(new(big.Float).SetInt64(-1)) <= 0 {
			return r, false
		}
		r.t = ref.Log1p(x)
		return r, true
	}
}

func (j *transJudge) judge(fi int, x ref.Bits) {
	fn := &transFns[fi]
	xn := ref.Decode(x)
	if xn.Class != ref.Finite {
		return
	}
	tr, inDomain := fn.reference(xn)
	if !inDomain {
		return
	}
	def := ref.Mode(currentDefault())
	mk := func() *mon.Case {
		c := j.ctx.NewCase(j.sh, fn.name)
		c.X = []string{x.Hex()}
		return c
	}
	var r D
	pv, pan := try(func() { r = fn.f(toD(x)) })
	j.sh.Eval(hash2(fn.name, x.Hi, x.Lo, uint64(def)), !xn.IsZero())
	detail := fmt.Sprintf("%s(%v) def=%v", fn.name, xn, def)
	if pan {
		j.sh.Violate(mk(), "panic", "no panic", fmt.Sprint(pv), detail)
		return
	}
	g := num(r)
	if g.Class == ref.NaN {
		j.sh.Violate(mk(), "nan-from-finite", "a number", g.String(), detail)
		return
	}
	// results decided by magnitude alone
	switch {
	case tr.hugePos:
		if g.Class != ref.Inf || g.Neg {
			j.sh.Violate(mk(), "range", "+Inf (true result beyond the largest finite Decimal)", g.String(), detail)
		}
		j.sh.Cell("res/" + fn.name + "/overflow-far")
		return
	case tr.tinyPos:
		if !g.IsZero() || g.Neg {
			j.sh.Violate(mk(), "range", "+0 (true result far below the smallest Decimal)", g.String(), detail)
		}
		j.sh.Cell("res/" + fn.name + "/underflow-far")
		return
	case tr.minusOne:
		if g.Class != ref.Finite || !g.Neg || !ref.SameValue(g.Coef, g.Exp, ref.One, 0) {
			// -1 + 1e-20000: -1 and its neighbour toward zero, -(1 - 1e-34), are within one unit in the last place
			okNeighbour := g.Class == ref.Finite && g.Neg && ref.SameValue(g.Coef, g.Exp, new(big.Int).Sub(ref.Pow10(34), ref.One), -34)
			if !okNeighbour {
				j.sh.Violate(mk(), "value", "-1", g.String(), detail)
			}
		}
		j.sh.Cell("res/" + fn.name + "/tends-to-minus-one")
		return
	}
	if tr.exact != nil && tr.exact.Sign() == 0 {
		// exact zero result with a definite sign
		if !g.IsZero() || g.Neg != tr.exactNeg {
			kind := "value"
			if g.IsZero() {
				kind = "sign"
			}
			j.sh.Violate(mk(), kind, fmt.Sprintf("zero neg=%v (exact)", tr.exactNeg), g.String(), detail)
		}
		j.sh.Cell("res/" + fn.name + "/exact-zero")
		return
	}
	t := tr.t
	if tr.exact != nil && t == nil {
		t = new(big.Float).SetPrec(ref.TransPrec).SetRat(tr.exact)
	}
	tneg := t.Sign() < 0
	E := spacingExp(t)
	// exactly representable results must be returned exactly under the nearest-even default
	if tr.exact != nil && def == ref.NearestEven {
		an := new(big.Int).Abs(tr.exact.Num())
		ex := ref.Prepare(tr.exact.Sign() < 0, an, tr.exact.Denom())
		if ex.IsExact && !ex.Huge && ex.E <= ref.MaxExp {
			w := ex.Round(ref.NearestEven, false)
			if !w.Matches(g) {
				j.sh.Violate(mk(), "exact", w.String()+" (exactly representable)", g.String(), detail)
				return
			}
			j.sh.Cell("res/" + fn.name + "/exact-representable")
		}
	}
	if E > ref.MaxExp {
		// |t| >= (Cmax+1)*10^6111 > MaxFinite
		err := new(big.Float)
		okFinite := false
		if g.Class == ref.Finite {
			err = ulpError(g, t, ref.MaxExp)
			okFinite = err.Cmp(fGuardLo) <= 0 && g.Neg == tneg
		}
		if !(g.Class == ref.Inf && g.Neg == tneg) && !okFinite {
			j.sh.Violate(mk(), "range", "Inf (true result above the largest finite Decimal)", g.String(), detail)
		}
		j.sh.Cell("res/" + fn.name + "/overflow-edge")
		return
	}
	u := pow10F(E)
	at := new(big.Float).SetPrec(ref.TransPrec).Abs(t)
	switch {
	case g.Class == ref.Inf:
		// accepted only within one unit of the largest finite Decimal
		maxF := new(big.Float).SetPrec(ref.TransPrec).Mul(new(big.Float).SetPrec(ref.TransPrec).SetInt(ref.Cmax), pow10F(ref.MaxExp))
		lim := new(big.Float).SetPrec(ref.TransPrec).Sub(maxF, u)
		if at.Cmp(lim) <= 0 || g.Neg != tneg {
			j.sh.Violate(mk(), "range", "a finite result (true value "+t.Text('g', 40)+")", g.String(), detail)
			return
		}
		j.sh.Cell("res/" + fn.name + "/overflow-edge")
		return
	case g.IsZero():
		if at.Cmp(pow10F(ref.MinExp)) >= 0 {
			j.sh.Violate(mk(), "range", "a non-zero result (true value "+t.Text('g', 40)+")", g.String(), detail)
			return
		}
		j.sh.Cell("res/" + fn.name + "/underflow-edge")
		return
	}
	if g.Neg != tneg {
		j.sh.Violate(mk(), "sign", "sign of "+t.Text('g', 40), g.String(), detail)
		return
	}
	err := ulpError(g, t, E)
	switch {
	case err.Cmp(fGuardHi) > 0:
		ef, _ := err.Float64()
		// metric: how far beyond one ulp (kept in big.Float until the subtraction so that 1+1e-30 is not lost)
		exc, _ := new(big.Float).SetPrec(ref.TransPrec).Sub(err, fOne).Float64()
		j.sh.ViolateM(mk(), "accuracy", fmt.Sprintf("within 1 ulp (10^%d) of %s", E, t.Text('g', 45)), fmt.Sprintf("%v (error %.4g ulp, excess over one ulp %.3g)", g, ef, exc), detail, exc)
		return
	case err.Cmp(fGuardLo) > 0:
		// The error is one ulp to within 1e-100: the argument is so small that the
		// true result differs from a simple value r0 (x for Expm1/Log1p, 1 for the
		// exponentials) by far less than the reference precision resolves, and the
		// result is r0 plus or minus exactly one unit. The side is decided
		// analytically: e^x-1 > x, log1p(x) < x, b^x-1 has the sign of x.
		var r0 *big.Rat
		sgnT := 0
		switch fn.kind {
		case 1:
			r0, sgnT = xn.Rat(), 1
		case 3:
			r0, sgnT = xn.Rat(), -1
		case 0:
			r0 = big.NewRat(1, 1)
			sgnT = 1
			if xn.Neg {
				sgnT = -1
			}
		}
		if r0 == nil || tr.exact != nil {
			if tr.exact != nil {
				// exact reference: an error of exactly one unit is within one unit
				j.sh.Cell("res/" + fn.name + "/exactly-one-ulp-from-exact")
				return
			}
			j.sh.Inconclusive("error within 1e-100 of exactly one ulp")
			return
		}
		sgnG := g.Rat().Cmp(r0)
		if sgnG != 0 && sgnG != sgnT {
			j.sh.ViolateM(mk(), "accuracy", fmt.Sprintf("within 1 ulp (10^%d) of %s (true value lies on the other side of %s)", E, t.Text('g', 45), r0.FloatString(0)), fmt.Sprintf("%v (error one ulp plus a tiny excess)", g), detail, 1e-300)
			return
		}
		j.sh.Cell("res/" + fn.name + "/one-ulp-side-decided-analytically")
		return
	}
	if fn.kind == 2 {
		// which entry of the library's leading-two-digit ln table this argument selects
		ds := xn.Coef.String()
		if len(ds) == 1 {
			ds += "0"
		}
		j.sh.Cell("lnslot/" + ds[:2])
	}
	ef, _ := err.Float64()
	b := int(ef * 10)
	if b > 10 {
		b = 10
	}
	j.sh.Cell(fmt.Sprintf("err/%s/%d", fn.name, b))
	if def == ref.NearestEven {
		c := mk()
		j.sh.TrackMax("worst_ulp/"+fn.name, ef, c)
	}
	if E == ref.MinExp {
		j.sh.Cell("res/" + fn.name + "/subnormal")
	}
	if j.sh.Evals%20000 < 2 {
		j.sh.Sample(mk())
	}
}

// ---- argument generators ----

func decOf(neg bool, c *big.Int, e int) ref.Bits {
	if c.Cmp(ref.Cmax) > 0 {
		c = new(big.Int).Mod(c, ref.CmaxP1)
	}
	return ref.Encode(neg, c, gen.ClampExp(e))
}

// magnitude returns a value with decimal exponent (of the leading digit) X.
func magnitudeArg(r *gen.RNG, neg bool, X int) ref.Bits {
	nd := r.Range(1, 34)
	c := r.Digits(nd)
	return decOf(neg, c, X-(nd-1))
}

func cohortVariant(r *gen.RNG, b ref.Bits) ref.Bits {
	if r.Chance(1, 3) {
		if alt, ok := r.CohortMember(ref.Decode(b)); ok {
			return alt
		}
	}
	return b
}

func (j *transJudge) genExpArg(r *gen.RNG, fi int) ref.Bits {
	fn := &transFns[fi]
	neg := r.Bool()
	// thresholds per base (|x| where the result leaves the range)
	hi, lo := 14150, 14221
	switch fn.base {
	case 2:
		hi, lo = 20414, 20517
	case 10:
		hi, lo = 6145, 6177
	}
	switch r.Intn(11) {
	case 0: // tiny
		return magnitudeArg(r, neg, r.Range(-6176, -40))
	case 1, 2: // dense
		return magnitudeArg(r, neg, r.Range(-40, 4))
	case 3: // threshold band
		th := hi
		if neg {
			th = lo
		}
		v := th + r.Range(-120, 120)
		frac := r.Digits(r.Range(1, 28))
		c := new(big.Int).Mul(big.NewInt(int64(v)), ref.Pow10(ref.NumDigits(frac)))
		c.Add(c, frac)
		return decOf(neg, c, -ref.NumDigits(frac))
	case 4: // integers through the admissible range
		v := r.Range(-lo-5, hi+5)
		if v < 0 {
			return cohortVariant(r, decOf(true, big.NewInt(int64(-v)), 0))
		}
		return cohortVariant(r, decOf(false, big.NewInt(int64(v)), 0))
	case 5: // integers +/- one unit in the last place (34 digits)
		v := r.Range(1, hi)
		c := new(big.Int).Mul(big.NewInt(int64(v)), ref.Pow10(34-ref.NumDigits(big.NewInt(int64(v)))))
		c.Add(c, big.NewInt(int64(r.Pick(-1, 1))))
		return decOf(neg, c, -(34 - ref.NumDigits(big.NewInt(int64(v)))))
	case 6: // moderate with many digits
		c := r.Digits(34)
		return decOf(neg, c, -r.Range(30, 34))
	case 7: // just beyond the thresholds
		th := hi
		if neg {
			th = lo
		}
		return magnitudeArg(r, neg, ref.NumDigits(big.NewInt(int64(th)))-1+r.Range(0, 3))
	case 8: // zero
		return ref.Encode(neg, new(big.Int), r.Exp())
	case 9: // far beyond the thresholds, where internal 16-bit exponents are at risk (e^75451 ~ 10^32768)
		v := r.Pick(r.Range(70000, 80000), r.Range(30000, 999999), r.Range(75300, 75700))
		frac := r.Digits(r.Range(1, 20))
		c := new(big.Int).Mul(big.NewInt(int64(v)), ref.Pow10(ref.NumDigits(frac)))
		c.Add(c, frac)
		return decOf(neg, c, -ref.NumDigits(frac))
	}
	return magnitudeArg(r, neg, r.Range(-8, 4))
}

func (j *transJudge) genLogArg(r *gen.RNG, fi int) ref.Bits {
	fn := &transFns[fi]
	switch r.Intn(10) {
	case 0, 1: // every decimal exponent x leading two digits
		X := r.Range(ref.MinExp, 6144)
		lead := r.Range(10, 99)
		nd := r.Range(2, 34)
		c := new(big.Int).Mul(big.NewInt(int64(lead)), ref.Pow10(nd-2))
		if nd > 2 {
			c.Add(c, r.BigBelow(ref.Pow10(nd-2)))
		}
		e := X - (nd - 1)
		if e < ref.MinExp {
			e = ref.MinExp
		}
		return decOf(false, c, e)
	case 2, 3: // near 1: 1 +/- k*10^-j
		jj := r.Range(1, 34)
		k := int64(r.Pick(1, 1, 2, 5, 9, r.Range(1, 99999)))
		c := new(big.Int).Set(ref.Pow10(jj))
		if r.Bool() {
			c.Add(c, big.NewInt(k))
		} else {
			c.Sub(c, big.NewInt(k))
		}
		if c.Sign() <= 0 {
			c = big.NewInt(9)
			jj = 1
		}
		return cohortVariant(r, decOf(false, c, -jj))
	case 4: // 0.99..9 and 1.00..01 patterns with random tails
		n := r.Range(1, 33)
		if r.Bool() {
			c := new(big.Int).Sub(ref.Pow10(n), ref.One)
			tail := r.Range(0, 34-n)
			c.Mul(c, ref.Pow10(tail))
			if tail > 0 {
				c.Add(c, r.BigBelow(ref.Pow10(tail)))
			}
			return decOf(false, c, -(n + tail))
		}
		c := new(big.Int).Set(ref.Pow10(n))
		c.Add(c, r.BigBelow(big.NewInt(1000)))
		return decOf(false, c, -n)
	case 5: // exact powers and their neighbours
		switch fn.base {
		case 2:
			n := r.Range(-48, 113)
			var c *big.Int
			e := 0
			if n >= 0 {
				c = new(big.Int).Lsh(ref.One, uint(n))
			} else {
				c = new(big.Int).Exp(big.NewInt(5), big.NewInt(int64(-n)), nil)
				e = n
			}
			b := decOf(false, c, e)
			if r.Chance(1, 3) {
				// +/- one unit in a 34-digit representation
				bn := ref.Decode(b)
				sh := 34 - ref.NumDigits(bn.Coef)
				if sh > 0 && bn.Exp-sh >= ref.MinExp {
					cc := new(big.Int).Mul(bn.Coef, ref.Pow10(sh))
					cc.Add(cc, big.NewInt(int64(r.Pick(-1, 1))))
					return decOf(false, cc, bn.Exp-sh)
				}
			}
			return cohortVariant(r, b)
		default:
			n := r.Range(ref.MinExp, 6144)
			if r.Chance(1, 2) {
				n = r.Range(-40, 40)
			}
			b := decOf(false, big.NewInt(1), n)
			if n > ref.MaxExp {
				b = decOf(false, ref.Pow10(n-ref.MaxExp), ref.MaxExp)
			}
			if r.Chance(1, 3) {
				bn := ref.Decode(b)
				sh := 33
				if bn.Exp-sh >= ref.MinExp {
					cc := new(big.Int).Mul(bn.Coef, ref.Pow10(sh))
					cc.Add(cc, big.NewInt(int64(r.Pick(-1, 1))))
					return decOf(false, cc, bn.Exp-sh)
				}
			}
			return cohortVariant(r, b)
		}
	case 6: // range ends
		if r.Bool() {
			c, _ := r.Coef()
			if c.Sign() == 0 {
				c = big.NewInt(1)
			}
			return decOf(false, c, ref.MinExp+r.Intn(5))
		}
		return decOf(false, new(big.Int).Sub(ref.Cmax, big.NewInt(int64(r.Intn(100)))), ref.MaxExp-r.Intn(3))
	case 7: // e-ish, small integers
		return cohortVariant(r, decOf(false, big.NewInt(int64(r.Range(1, 1000))), r.Range(-3, 3)))
	}
	return magnitudeArg(r, false, r.Range(-50, 50))
}

func (j *transJudge) genLog1pArg(r *gen.RNG) ref.Bits {
	neg := r.Bool()
	switch r.Intn(8) {
	case 0: // tiny
		return magnitudeArg(r, neg, r.Range(-6176, -40))
	case 1, 2: // small
		return magnitudeArg(r, neg, r.Range(-40, -1))
	case 3: // near -1: -1 + 10^-j
		jj := r.Range(1, 34)
		c := new(big.Int).Sub(ref.Pow10(jj), big.NewInt(int64(r.Range(1, 99))))
		if c.Sign() <= 0 {
			c = big.NewInt(9)
			jj = 1
		}
		return decOf(true, c, -jj)
	case 4: // around the internal switch at 1e-10
		return magnitudeArg(r, neg, r.Range(-12, -8))
	case 5: // positive large
		return magnitudeArg(r, false, r.Range(0, 6144))
	case 6:
		return ref.Encode(neg, new(big.Int), r.Exp())
	}
	if neg {
		// (-1, 0)
		nd := r.Range(1, 34)
		c := r.Digits(nd)
		return decOf(true, c, -nd-r.Intn(3))
	}
	return magnitudeArg(r, false, r.Range(-5, 5))
}

func (j *transJudge) genArg(r *gen.RNG, fi int) ref.Bits {
	if r.Chance(1, 10) {
		// coefficient next to an internal threshold of the multi-word kernels (2^64, 2^128, 2^192 and the
		// x10-guards, scaled by powers of ten), at a moderate magnitude so that the general path is taken
		c := r.ThresholdFull()
		if r.Chance(1, 3) {
			c = r.ThresholdCoef()
		}
		nd := ref.NumDigits(c)
		e := -(nd - 1) + r.Pick(0, 0, 0, 1, -1, 2, 3, r.Range(-12, 4))
		neg := r.Bool()
		switch transFns[fi].kind {
		case 2: // logarithms: positive arguments over a wider magnitude range
			neg = false
			if r.Chance(1, 3) {
				e = -(nd - 1) + r.Range(-300, 300)
			}
		case 3: // Log1p: x = t - 1 so that 1+x carries the threshold mantissa (when that is representable)
			if r.Bool() {
				t := new(big.Int).Set(c)
				one := ref.Pow10(nd - 1)
				if t.Cmp(one) > 0 {
					return decOf(false, t.Sub(t, one), -(nd - 1))
				}
			}
			if neg && e >= -(nd-1) {
				e = -nd - r.Intn(3) // keep -1 < x
			}
		}
		j.sh.Cell("gen/threshold-coefficient")
		return decOf(neg, c, gen.ClampExp(e))
	}
	switch transFns[fi].kind {
	case 0:
		return j.genExpArg(r, fi)
	case 1:
		if r.Chance(1, 2) {
			// near zero, both signs, over the whole exponent range
			neg := r.Bool()
			switch r.Intn(3) {
			case 0:
				return magnitudeArg(r, neg, r.Range(-6176, -40))
			case 1:
				return magnitudeArg(r, neg, r.Range(-40, -1))
			default:
				return magnitudeArg(r, neg, r.Range(-70, -15))
			}
		}
		return j.genExpArg(r, fi)
	case 2:
		return j.genLogArg(r, fi)
	}
	return j.genLog1pArg(r)
}

func runC16(c *Ctx) {
	for def := ref.Mode(0); def < ref.NumModes; def++ {
		c.Parallel("fn", def, func(sh *mon.Shard, r *gen.RNG) {
			j := &transJudge{ctx: c, sh: sh}
			n := c.N(1000, 12000)
			if def != ref.NearestEven {
				n /= 3
			}
			for i := 0; i < n; i++ {
				for fi := range transFns {
					j.judge(fi, j.genArg(r, fi))
				}
			}
			if def == ref.NearestEven {
				// systematic sweep of large arguments (1e4 .. 1e6) where results are far beyond the
				// range and internal 16-bit exponents are at risk: every window wider than the step is hit
				step := c.Stride(100, 100)
				kk := 0
				for v := 10000; v < 1000000; v += step {
					kk++
					if kk%c.Shards != sh.ID {
						continue
					}
					frac := int64(r.Intn(1000))
					cf := new(big.Int).Add(new(big.Int).Mul(big.NewInt(int64(v)), big.NewInt(1000)), big.NewInt(frac))
					for _, neg := range []bool{false, true} {
						j.judge(0, decOf(neg, cf, -3))
						j.judge(3, decOf(neg, cf, -3))
						if kk%4 == 0 {
							j.judge(1, decOf(neg, cf, -3))
							j.judge(2, decOf(neg, cf, -3))
						}
					}
				}
				// every integer through the admissible range of Exp2 / Exp10 (split over shards; quick: strided)
				stride := c.Pick(16, 1)
				k := 0
				for v := -20530; v <= 20430; v++ {
					k++
					if k%c.Shards != sh.ID || (k/c.Shards)%stride != int(c.Seed%uint64(stride)) {
						continue
					}
					neg := v < 0
					a := v
					if neg {
						a = -v
					}
					j.judge(1, cohortVariant(r, decOf(neg, big.NewInt(int64(a)), 0)))
					if v >= -6190 && v <= 6160 {
						j.judge(2, cohortVariant(r, decOf(neg, big.NewInt(int64(a)), 0)))
					}
				}
			}
		})
	}
	c.Col.Res.Targets = append(c.Col.Res.Targets,
		mon.Target{Prefix: "err/", Total: 88, Min: 40},
		mon.Target{Prefix: "res/", Total: 40, Min: 20},
		mon.Target{Prefix: "lnslot/", Total: 90, Min: 90},
	)
}

func replayC16(c *Ctx, sh *mon.Shard, cs *mon.Case) {
	j := &transJudge{ctx: c, sh: sh}
	x, _ := ref.ParseHex(cs.X[0])
	for fi := range transFns {
		if transFns[fi].name == cs.Op {
			j.judge(fi, x)
		}
	}
}
