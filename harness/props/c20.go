package props

import (
	"bytes"
	"encoding/json"
	"fmt"
	"hash/fnv"
	"math"
	"math/big"
	"os"
	"runtime"
	"strconv"
	"strings"
	"sync"
	"sync/atomic"
	"syscall"
	"time"

	"github.com/woodsbury/decimal128"

	"verifharness/gen"
	"verifharness/mon"
	"verifharness/ref"
)

func init() {
	register(&Prop{
		ID: "C20",
		Rule: "(a) every exported entry point called with hostile arguments: arbitrary bit patterns, strings / byte slices of length 0..100000 from the literal mutators, precisions and widths {-1,0,1,41,1000,99999,100000} and 30-digit numbers inside spec strings, " +
			"dp / exp {MinInt..MaxInt}, every RoundingMode byte, Compose with 0..4096-byte coefficients, Decompose buffers of capacity 0..32, Scan with every verb; panics must occur exactly in the documented cases, inputs must be byte-identical afterwards, " +
			"returned strings / slices must stay unchanged by later calls, DefaultRoundingMode and the package constants must stay unchanged, and a watchdog bounds every call. " +
			"(b) a shared table of operand records and ~150 operations executed by 16..64 goroutines in different permutations with Gosched between calls under GOMAXPROCS 4 and 16: every concurrent result must equal the sequential result bit for bit; " +
			"the same workload is repeated under the race detector (which implies checkptr), -asan and -d=checkptr builds, whose reports are counted by the runner. non-trivial = a call with a special / hostile argument, or a concurrent call whose interval overlapped another call; distinct = distinct (entry point, argument hash).",
		Run:    runC20,
		Replay: replayC20,
		Assume: []string{"the Go race detector, checkptr and ASan report the defects they are designed for on the executions that occurred", "bounded progress (120 s per call) stands in for termination"},
		Cover:  []string{"Decimal.String", "Decimal.Format", "parseFormat", "Decimal.Compose", "Decimal.Decompose", "Decimal.Scan"},
	})
}

// ---------- hostile arguments ----------

type zoo struct {
	r    *gen.RNG
	X, Y ref.Bits
	S    string
	B    []byte
	I    int
	M    decimal128.RoundingMode
	P    int
	Spec string
}

var hostileInts = []int{math.MinInt, math.MinInt + 1, -1 << 31, -1<<31 - 1, -100000, -65536, -32769, -32768, -6177, -6176, -36, -1, 0, 1, 35, 36, 6111, 6112, 32767, 32768, 65535, 65536, 100000, 1<<31 - 1, 1 << 31, math.MaxInt - 1, math.MaxInt}
var hostilePrecs = []int{-1, 0, 1, 6, 34, 35, 41, 1000, 99999, 100000}

func (z *zoo) refill(i int) {
	r := z.r
	z.X, z.Y = r.AnyBits(), r.AnyBits()
	if r.Chance(1, 4) {
		z.X = ref.Bits{Hi: r.U64(), Lo: r.U64()}
	}
	// operands that operations single out (+/-1, powers of ten, 2, 1/2, small integers) in an arbitrary
	// cohort member: domain checks and shortcuts are keyed on particular encodings of these values
	if r.Chance(1, 6) {
		z.X = altEncoding(r, distinguishedValue(r))
	}
	if r.Chance(1, 6) {
		z.Y = altEncoding(r, distinguishedValue(r))
	}
	// a joint condition on both operands: the exact product of the coefficients next to an intermediate
	// threshold of the multi-word pipeline (top word equal to a fast-path divisor, word boundaries)
	if r.Chance(1, 8) {
		if a, b, ok := r.ProductTargetPair(); ok {
			z.X = ref.Encode(r.Bool(), a, r.Range(-300, 300))
			z.Y = ref.Encode(r.Bool(), b, r.Range(-300, 300))
		}
	}
	switch r.Intn(6) {
	case 0:
		z.S = buildLiteral(r, i%997 == 0)
	case 1:
		z.S = mutate(r, buildLiteral(r, false))
	case 2:
		z.S = fixedInvalid[r.Intn(len(fixedInvalid))]
	case 3:
		n := r.Pick(0, 1, 2, 17, 100, 1000)
		if i%1999 == 0 {
			n = 100000
		}
		b := make([]byte, n)
		for k := range b {
			b[k] = byte(r.U64())
		}
		z.S = string(b)
	case 4:
		z.S = jsonNonNumbers[r.Intn(len(jsonNonNumbers))]
	default:
		z.S = mutate(r, jsonNumberToken(r, false))
	}
	z.B = []byte(z.S)
	z.I = hostileInts[r.Intn(len(hostileInts))]
	if r.Bool() {
		z.I = r.Range(-7000, 7000)
	}
	z.M = decimal128.RoundingMode(r.Intn(256))
	if r.Bool() {
		z.M = decimal128.RoundingMode(r.Intn(6))
	}
	z.P = hostilePrecs[r.Intn(len(hostilePrecs))]
	if i%503 != 0 && z.P > 1000 {
		z.P = r.Range(0, 60) // the very large precisions only now and then (100 kB outputs)
	}
	// spec string
	switch r.Intn(5) {
	case 0:
		z.Spec = makeSpec(fmtVerbs[r.Intn(6)], r.Intn(32), r.Pick(-1, r.Range(0, 60)), r.Pick(-1, r.Range(0, 60))).spec
	case 1:
		z.Spec = mutate(r, makeSpec(fmtVerbs[r.Intn(6)], r.Intn(32), r.Range(0, 60), r.Range(0, 60)).spec)
	case 2:
		z.Spec = r.Digits(r.Range(1, 30)).String() + "." + r.Digits(r.Range(1, 30)).String() + string("efgvEFGxd%"[r.Intn(10)])
	case 3:
		z.Spec = strconv.Itoa(hostilePrecs[r.Intn(len(hostilePrecs))]+1) + "." + strconv.Itoa(r.Pick(0, 5, 1000)) + string("efg"[r.Intn(3)])
		if i%503 != 0 {
			z.Spec = "12.5" + string("efgv"[r.Intn(4)])
		}
	default:
		b := make([]byte, r.Intn(8))
		for k := range b {
			const alphabet = "+-# 0123456789.efgvEFG%*\x00\xff"
			b[k] = alphabet[r.Intn(len(alphabet))]
		}
		z.Spec = string(b)
	}
}

type totalJudge struct {
	ctx   *Ctx
	sh    *mon.Shard
	z     zoo
	ring  []retained
	slot  *caseSlot
	calls map[string]int64
}

// retained keeps a value returned earlier together with a private copy, to
// detect later mutation of what the library handed out.
type retained struct {
	op   string
	s    string
	copy string
	b    []byte
	bcp  []byte
}

// caseSlot is where a shard publishes the call in flight (for the watchdog
// and, in sanitizer builds, for post-mortem attribution).
type caseSlot struct {
	desc  atomic.Value // string
	start atomic.Int64 // unix nanos, 0 when idle
	file  *os.File
	off   int64
}

const slotSize = 512

func (s *caseSlot) begin(desc string) {
	s.desc.Store(desc)
	s.start.Store(time.Now().UnixNano())
	if s.file != nil {
		buf := make([]byte, slotSize)
		copy(buf, desc)
		buf[slotSize-1] = '\n'
		s.file.WriteAt(buf, s.off)
	}
}

func (s *caseSlot) end() { s.start.Store(0) }

// do runs one library call: publishes it, recovers a panic, checks the
// documented-panic rule.
func (j *totalJudge) do(op string, wantPanic int, f func()) (panicked bool) {
	// wantPanic: 0 never, 1 must, 2 may
	z := &j.z
	desc := fmt.Sprintf("%s x=%s y=%s i=%d m=%d p=%d spec=%q s=%q", op, z.X.Hex(), z.Y.Hex(), z.I, z.M, z.P, z.Spec, clipS(z.S, 120))
	j.slot.begin(desc)
	pv, pan := try(f)
	j.slot.end()
	j.calls[op]++
	special := ref.Decode(z.X).Class != ref.Finite || len(z.S) > 1000 || z.P > 1000 || z.I > 100000 || z.I < -100000 || z.M > 5
	j.sh.Eval(hashStr(op, z.S+z.Spec, z.X.Hi, z.X.Lo, z.Y.Hi, z.Y.Lo, uint64(z.I), uint64(z.M), uint64(z.P)), special)
	mk := func() *mon.Case {
		c := j.ctx.NewCase(j.sh, op)
		c.X = []string{z.X.Hex(), z.Y.Hex()}
		c.S = []string{z.S, z.Spec}
		c.N = []int64{int64(z.I), int64(z.M), int64(z.P)}
		return c
	}
	switch {
	case pan && wantPanic == 0:
		j.sh.Violate(mk(), "panic", "no panic", clipS(fmt.Sprint(pv), 300), desc)
	case !pan && wantPanic == 1:
		j.sh.Violate(mk(), "panic-expected", "the documented panic", "returned normally", desc)
	case pan:
		j.sh.Cell("documented-panic/" + op)
	}
	return pan
}

func (j *totalJudge) fail(op, kind, want, got string) {
	z := &j.z
	c := j.ctx.NewCase(j.sh, op)
	c.X = []string{z.X.Hex(), z.Y.Hex()}
	c.S = []string{z.S, z.Spec}
	c.N = []int64{int64(z.I), int64(z.M), int64(z.P)}
	j.sh.Violate(c, kind, want, got, "")
}

func (j *totalJudge) keepString(op, s string) {
	j.ring = append(j.ring, retained{op: op, s: s, copy: strings.Clone(s)})
}

func (j *totalJudge) keepBytes(op string, b []byte) {
	j.ring = append(j.ring, retained{op: op, b: b, bcp: append([]byte(nil), b...)})
}

func (j *totalJudge) checkRing() {
	for _, k := range j.ring {
		if k.s != k.copy || !bytes.Equal(k.b, k.bcp) {
			j.fail(k.op, "output-mutated", "a value returned earlier stays unchanged by later calls", "changed")
		}
	}
	if len(j.ring) > 0 {
		j.sh.CellN("retained-outputs-rechecked", int64(len(j.ring)))
	}
	j.ring = j.ring[:0]
}

// oneRound calls every exported entry point once with the current zoo.
func (j *totalJudge) oneRound() {
	z := &j.z
	x, y := toD(z.X), toD(z.Y)
	xn := ref.Decode(z.X)
	isNaN := xn.Class == ref.NaN
	special := xn.Class != ref.Finite
	b2i := func(b bool) int {
		if b {
			return 1
		}
		return 0
	}
	m := z.M
	// --- arithmetic
	j.do("Decimal.Add", 0, func() { _ = x.Add(y) })
	j.do("Decimal.AddWithMode", 0, func() { _ = x.AddWithMode(y, m) })
	j.do("Decimal.Sub", 0, func() { _ = x.Sub(y) })
	j.do("Decimal.SubWithMode", 0, func() { _ = x.SubWithMode(y, m) })
	j.do("Decimal.Mul", 0, func() { _ = x.Mul(y) })
	j.do("Decimal.MulWithMode", 0, func() { _ = x.MulWithMode(y, m) })
	j.do("Decimal.Quo", 0, func() { _ = x.Quo(y) })
	j.do("Decimal.QuoWithMode", 0, func() { _ = x.QuoWithMode(y, m) })
	j.do("Decimal.QuoRem", 0, func() { _, _ = x.QuoRem(y) })
	j.do("Decimal.QuoRemWithMode", 0, func() { _, _ = x.QuoRemWithMode(y, m) })
	j.do("Decimal.Pow", 0, func() { _ = x.Pow(y) })
	j.do("Decimal.PowWithMode", 0, func() { _ = x.PowWithMode(y, m) })
	j.do("Decimal.Neg", 0, func() { _ = x.Neg() })
	j.do("Abs", 0, func() { _ = decimal128.Abs(x) })
	j.do("Decimal.Canonical", 0, func() { _ = x.Canonical() })
	// --- comparisons / predicates
	j.do("Decimal.Cmp", 0, func() {
		c := x.Cmp(y)
		_, _, _, _, _ = c.Less(), c.Equal(), c.Greater(), c.LessOrEqual(), c.GreaterOrEqual()
	})
	j.calls["CmpResult.Less"]++
	j.calls["CmpResult.Equal"]++
	j.calls["CmpResult.Greater"]++
	j.calls["CmpResult.LessOrEqual"]++
	j.calls["CmpResult.GreaterOrEqual"]++
	j.do("Decimal.CmpAbs", 0, func() { _ = x.CmpAbs(y) })
	j.do("Decimal.Equal", 0, func() { _ = x.Equal(y) })
	j.do("Compare", 0, func() { _ = decimal128.Compare(x, y) })
	j.do("Min", 0, func() { _ = decimal128.Min(x, y) })
	j.do("Max", 0, func() { _ = decimal128.Max(x, y) })
	j.do("Decimal.IsZero", 0, func() { _ = x.IsZero() })
	j.do("Decimal.IsNaN", 0, func() { _ = x.IsNaN() })
	j.do("Decimal.IsInf", 0, func() { _ = x.IsInf(z.I) })
	j.do("Decimal.Signbit", 0, func() { _ = x.Signbit() })
	j.do("Decimal.Sign", b2i(isNaN), func() { _ = x.Sign() })
	j.do("Decimal.Payload", b2i(!isNaN), func() { _ = x.Payload().String() })
	j.do("Payload.String", 0, func() { _ = decimal128.Payload(z.X.Lo).String() })
	// payloads shaped like the library's own (operation byte, two operand-class bytes) with every small class value
	j.do("Payload.String", 0, func() {
		_ = decimal128.Payload(z.X.Lo%40 | (z.X.Hi%12)<<8 | (z.Y.Lo%12)<<16).String()
	})
	j.do("RoundingMode.String", 0, func() { _ = m.String() })
	// --- elementary
	for _, u := range unOps {
		if u.name == "Abs" || u.name == "Neg" {
			continue
		}
		u := u
		j.do(u.name, 0, func() { _ = u.f(x) })
	}
	// --- rounding
	j.do("Decimal.Round", 0, func() { _ = x.Round(z.I, m) })
	j.do("Decimal.Ceil", 0, func() { _ = x.Ceil(z.I) })
	j.do("Decimal.Floor", 0, func() { _ = x.Floor(z.I) })
	// --- constructors / scaling
	j.do("New", 0, func() { _ = decimal128.New(int64(z.X.Lo), z.I) })
	j.do("Ldexp", 0, func() { _ = decimal128.Ldexp(x, z.I) })
	j.do("Frexp", 0, func() { _, _ = decimal128.Frexp(x) })
	j.do("Inf", 0, func() { _ = decimal128.Inf(z.I) })
	j.do("NaN", 0, func() { _ = decimal128.NaN() })
	j.do("E", 0, func() { _ = decimal128.E() })
	j.do("Pi", 0, func() { _ = decimal128.Pi() })
	j.do("Phi", 0, func() { _ = decimal128.Phi() })
	// --- conversions
	j.do("Decimal.Float64", 0, func() { _ = x.Float64() })
	j.do("Decimal.Float32", 0, func() { _ = x.Float32() })
	j.do("Decimal.Float", b2i(isNaN), func() {
		var f *big.Float
		if z.I&1 == 0 {
			f = new(big.Float).SetPrec(uint(z.I & 0x3ff)).SetMode(big.RoundingMode(z.M % 6))
		}
		_ = x.Float(f)
	})
	j.do("Decimal.Int", b2i(special), func() { _ = x.Int(nil) })
	j.do("Decimal.Rat", b2i(special), func() { _ = x.Rat(nil) })
	j.do("Decimal.Int64", b2i(isNaN), func() { _, _ = x.Int64() })
	j.do("Decimal.Int32", b2i(isNaN), func() { _, _ = x.Int32() })
	j.do("Decimal.Uint64", b2i(isNaN), func() { _, _ = x.Uint64() })
	j.do("Decimal.Uint32", b2i(isNaN), func() { _, _ = x.Uint32() })
	j.do("FromFloat64", 0, func() { _ = decimal128.FromFloat64(math.Float64frombits(z.X.Lo)) })
	j.do("FromFloat32", 0, func() { _ = decimal128.FromFloat32(math.Float32frombits(uint32(z.X.Lo))) })
	j.do("FromInt64", 0, func() { _ = decimal128.FromInt64(int64(z.X.Lo)) })
	j.do("FromInt32", 0, func() { _ = decimal128.FromInt32(int32(z.X.Lo)) })
	j.do("FromUint64", 0, func() { _ = decimal128.FromUint64(z.X.Lo) })
	j.do("FromUint32", 0, func() { _ = decimal128.FromUint32(uint32(z.X.Lo)) })
	{
		bi := new(big.Int).SetBytes(z.B)
		if len(z.B) > 3000 {
			bi.SetBytes(z.B[:3000])
		}
		if z.I&1 == 1 {
			bi.Neg(bi)
		}
		snap := new(big.Int).Set(bi)
		j.do("FromInt", 0, func() { _ = decimal128.FromInt(bi) })
		den := new(big.Int).SetUint64(z.Y.Lo | 1)
		if z.I&2 == 2 {
			den.Lsh(den, uint(z.Y.Hi&0xfff))
		}
		br := new(big.Rat).SetFrac(bi, den)
		snapR := new(big.Rat).Set(br)
		j.do("FromRat", 0, func() { _ = decimal128.FromRat(br) })
		// precision 1..512, or (one case in four) a wide one up to ~16k bits with a mantissa that really uses it; the
		// operand's precision, mode and value are all part of the caller's state (seed C20-fromfloat-setprec-...)
		prec := uint(1 + z.X.Hi&0x1ff)
		if z.I&0x30 == 0x30 {
			prec = uint(513 + (z.X.Hi>>9)&0x3fff)
		}
		bf := new(big.Float).SetPrec(prec).SetMode(big.RoundingMode(z.M % 6)).SetInt(bi)
		if prec > 512 {
			// 1/3 at full precision: a mantissa with bits all the way down
			bf.Quo(bf, new(big.Float).SetPrec(prec).SetInt64(3))
		}
		bf.SetMantExp(bf, int(int16(z.X.Lo)))
		if z.I&4 == 4 {
			bf.SetInf(z.I&8 == 8)
		}
		snapF := new(big.Float).Copy(bf)
		j.do("FromFloat", 0, func() { _ = decimal128.FromFloat(bf) })
		if bi.Cmp(snap) != 0 || br.Cmp(snapR) != 0 || bf.Cmp(snapF) != 0 || bf.Prec() != snapF.Prec() || bf.Mode() != snapF.Mode() || bf.MinPrec() != snapF.MinPrec() || bf.Signbit() != snapF.Signbit() {
			j.fail("FromInt/FromRat/FromFloat", "input-modified", "big arguments unchanged (value, precision, mode)", "modified")
		}
	}
	// --- text in
	lit := ref.Classify(z.S)
	j.do("Parse", 0, func() { _, _ = decimal128.Parse(z.S) })
	mp := 0
	switch lit.Class {
	case ref.LitReject:
		mp = 1
	case ref.LitDontCare:
		mp = 2
	case ref.LitNumber:
		if lit.Mant.Sign() != 0 && ref.PrepareScaled(lit.Neg, lit.Mant, lit.Scale()).Round(ref.Mode(currentDefault()), false).Inf {
			mp = 2
		}
	}
	j.do("MustParse", mp, func() { _ = decimal128.MustParse(z.S) })
	{
		in := append([]byte(nil), z.B...)
		var d D
		j.do("Decimal.UnmarshalText", 0, func() { _ = d.UnmarshalText(in) })
		j.do("Decimal.UnmarshalJSON", 0, func() { _ = d.UnmarshalJSON(in) })
		j.do("Decimal.UnmarshalBinary", 0, func() { _ = d.UnmarshalBinary(in) })
		if len(in) > 16 {
			j.do("Decimal.UnmarshalBinary", 0, func() { _ = d.UnmarshalBinary(in[:16]) })
		}
		j.do("Decimal.Compose", 0, func() { _ = d.Compose(byte(z.I), z.I&16 == 16, in, int32(z.X.Lo)) })
		if len(in) <= 4096 {
			j.do("Decimal.Compose", 0, func() { _ = d.Compose(0, false, in, int32(z.I)) })
		}
		if !bytes.Equal(in, z.B) {
			j.fail("Unmarshal*/Compose", "input-modified", "input slice unchanged", "modified")
		}
		{
			// structured coefficients c*10^k (+ a few leading zero bytes): the shapes Compose can fold
			c := new(big.Int).SetUint64(z.X.Lo | 1)
			c.Mul(c, ref.Pow10(int(z.Y.Lo%120)))
			if z.I&1 == 1 {
				c.Add(c, ref.One)
			}
			coef := append(make([]byte, int(z.Y.Hi%3)), c.Bytes()...)
			snap := append([]byte(nil), coef...)
			j.do("Decimal.Compose", 0, func() { _ = d.Compose(0, z.I&2 == 2, coef, int32(-int(z.Y.Lo%120)+int(z.X.Hi%5)-2)) })
			if !bytes.Equal(coef, snap) {
				j.fail("Decimal.Compose", "input-modified", "coefficient slice unchanged", "modified")
			}
		}
		j.do("json.Unmarshal", 0, func() {
			var box jsonBox
			_ = json.Unmarshal(in, &box)
			var ds []decimal128.Decimal
			_ = json.Unmarshal(in, &ds)
		})
	}
	j.do("Decimal.Scan", 0, func() {
		var d D
		_, _ = fmt.Sscan(z.S, &d)
		verb := "vefgEFGdsxq%"[int(z.X.Lo%12)]
		_, _ = fmt.Sscanf(z.S, "%"+string(verb), &d)
		_, _ = fmt.Sscanf(z.S, "%5"+string(verb), &d)
	})
	// --- text out
	// ownership of returned slices: overwrite what a producer returned, call it again,
	// and require the same bytes as before (a producer must not hand out library storage)
	{
		own := func(op string, f func() []byte) {
			j.do(op, 0, func() {
				a := f()
				want := string(a)
				for i := range a {
					a[i] = 0xEE
				}
				b := f()
				if string(b) != want {
					j.fail(op, "output-aliased", "a returned slice is the caller's: overwriting it must not change later results ("+clipS(want, 40)+")", clipS(string(b), 40))
				}
				j.sh.Cell("returned-slice-overwritten/" + op)
			})
		}
		own("Decimal.MarshalText", func() []byte { b, _ := x.MarshalText(); return b })
		own("Decimal.MarshalJSON", func() []byte { b, _ := x.MarshalJSON(); return b })
		own("Decimal.MarshalBinary", func() []byte { b, _ := x.MarshalBinary(); return b })
		own("Append", func() []byte { return decimal128.Append(nil, x, "efgEG"[int(z.X.Lo%5)], z.P%40-1) })
		own("Decimal.Append", func() []byte { return x.Append(nil, "efgvEG"[int(z.Y.Lo%6):][:1]) })
		own("Decimal.Append", func() []byte { return x.Append(nil, "+4g") })
		own("Decimal.Decompose", func() []byte { _, _, c, _ := x.Decompose(nil); return c })
	}
	j.do("Decimal.String", 0, func() { j.keepString("Decimal.String", x.String()) })
	j.do("Decimal.MarshalText", 0, func() { b, _ := x.MarshalText(); j.keepBytes("Decimal.MarshalText", b) })
	j.do("Decimal.MarshalJSON", 0, func() { b, _ := x.MarshalJSON(); j.keepBytes("Decimal.MarshalJSON", b) })
	j.do("Decimal.MarshalBinary", 0, func() { b, _ := x.MarshalBinary(); j.keepBytes("Decimal.MarshalBinary", b) })
	j.do("json.Marshal", 0, func() { _, _ = json.Marshal(jsonBox{A: x, B: &y, C: []decimal128.Decimal{x, y}}) })
	verb := "efgEFGvxq\x00"[int(z.Y.Lo%10)]
	j.do("Format", 0, func() { j.keepString("Format", decimal128.Format(x, verb, z.P)) })
	j.do("Append", 0, func() {
		pre := []byte("pre")
		out := decimal128.Append(pre, x, verb, z.P)
		if len(out) < 3 || string(out[:3]) != "pre" {
			j.fail("Append", "prefix", "prefix untouched", clipS(string(out), 40))
		}
	})
	j.do("Decimal.Append", 0, func() {
		pre := append(make([]byte, 0, 8+int(z.X.Lo%64)), "pre"...)
		out := x.Append(pre, z.Spec)
		if len(out) < 3 || string(out[:3]) != "pre" {
			j.fail("Decimal.Append", "prefix", "prefix untouched", clipS(string(out), 40))
		}
		j.keepBytes("Decimal.Append", out)
	})
	j.do("Decimal.Format", 0, func() {
		_ = fmt.Sprintf("%"+z.Spec, x)
		_ = fmt.Sprintf("%*.*f|%v|%s|%d|%q|%x|%08.3e", z.P%200, z.I%200, x, x, x, x, x, x, y)
	})
	j.do("Decimal.Decompose", 0, func() {
		cp := int(z.X.Lo % 33)
		buf := make([]byte, int(z.Y.Lo%uint64(cp+1)), cp)
		_, _, coef, _ := x.Decompose(buf)
		j.keepBytes("Decimal.Decompose", coef)
		_, _, _, _ = x.Decompose(nil)
	})
}

// apiNames lists the exported identifiers the workload above exercises; the
// runner compares it with the identifiers exported by the tree under test.
func apiNames(calls map[string]int64) []string {
	var out []string
	for k := range calls {
		out = append(out, k)
	}
	return out
}

// ---------- concurrency ----------

// rawSigD is the bit-exact signature used for sequential-vs-concurrent tables.
func rawSigD(d D) string { return toB(d).Hex() }

type concTable struct {
	ops  []cohortOp
	a    [][]D
	seq  [][]uint64
	in   []byte // shared read-only inputs
	text string
}

func h64(s string) uint64 {
	h := fnv.New64a()
	h.Write([]byte(s))
	return h.Sum64()
}

func runOpRaw(op *cohortOp, a []D) (s string) {
	defer func() {
		if r := recover(); r != nil {
			s = fmt.Sprintf("panic:%v", r)
		}
	}()
	return op.f(a)
}

func (c *Ctx) concurrencyPhase(rep int, G int, procs int, tab *concTable, sh *mon.Shard) {
	old := runtime.GOMAXPROCS(procs)
	defer runtime.GOMAXPROCS(old)
	var seqCounter atomic.Int64
	var mism atomic.Int64
	var overlapped atomic.Int64
	var total atomic.Int64
	type miss struct {
		rec, op int
		got     string
	}
	var mu sync.Mutex
	var misses []miss
	perOpOverlap := make([]atomic.Int64, len(tab.ops))
	nrec, nop := len(tab.a), len(tab.ops)
	var wg sync.WaitGroup
	for g := 0; g < G; g++ {
		wg.Add(1)
		go func(g int) {
			defer wg.Done()
			r := gen.NewRNG(c.Seed, uint64(rep), uint64(g), 0xc0c0)
			// a different permutation per goroutine: affine walk over the (record, op) grid
			n := nrec * nop
			stride := r.Intn(n-1) + 1
			for gcd(stride, n) != 1 {
				stride++
			}
			pos := r.Intn(n)
			steps := n / 8
			for s := 0; s < steps; s++ {
				pos = (pos + stride) % n
				ri, oi := pos/nop, pos%nop
				start := seqCounter.Add(1)
				got := runOpRaw(&tab.ops[oi], tab.a[ri])
				end := seqCounter.Add(1)
				total.Add(1)
				if end-start > 1 {
					overlapped.Add(1)
					perOpOverlap[oi].Add(1)
				}
				if h64(got) != tab.seq[ri][oi] {
					mism.Add(1)
					mu.Lock()
					if len(misses) < 20 {
						misses = append(misses, miss{ri, oi, got})
					}
					mu.Unlock()
				}
				// shared read-only inputs used by many goroutines at once
				if s%16 == 0 {
					var d D
					_ = d.UnmarshalText(tab.in)
					_ = d.UnmarshalJSON(tab.in)
					_ = d.Compose(0, false, tab.in, 3)
					_, _ = decimal128.Parse(tab.text)
				}
				runtime.Gosched()
			}
		}(g)
	}
	wg.Wait()
	sh.Evals += total.Load()
	sh.CellN("concurrent/calls", total.Load())
	sh.CellN("concurrent/calls-overlapping-another-call", overlapped.Load())
	sh.Cell(fmt.Sprintf("concurrent/config/G=%d,procs=%d", G, procs))
	distinctOps := 0
	for i := range perOpOverlap {
		if perOpOverlap[i].Load() > 0 {
			distinctOps++
		}
	}
	sh.TrackMax("concurrent/ops-observed-overlapping", float64(distinctOps), nil)
	for _, m := range misses {
		cs := c.NewCase(sh, tab.ops[m.op].name)
		for _, d := range tab.a[m.rec] {
			cs.X = append(cs.X, toB(d).Hex())
		}
		sh.Violate(cs, "concurrent-differs", "the sequential result", clipS(m.got, 120), fmt.Sprintf("G=%d procs=%d rep=%d", G, procs, rep))
	}
	if n := mism.Load() - int64(len(misses)); n > 0 {
		sh.ViolTotal += n
		sh.FreshTotal += n
	}
}

func gcd(a, b int) int {
	for b != 0 {
		a, b = b, a%b
	}
	return a
}

func buildConcTable(c *Ctx) *concTable {
	tab := &concTable{}
	tab.ops = cohortOpsWith(rawSigD, func(s string) string { return s })
	r := gen.NewRNG(c.Seed, 0x7ab1e)
	nrec := c.Pick(512, 4096)
	for i := 0; i < nrec; i++ {
		var x, y ref.Bits
		switch i % 4 {
		case 0:
			x, y = r.AnyBits(), r.AnyBits()
		case 1:
			x, y = genCohortValue(r), genCohortValue(r)
		default:
			x, y = r.Finite(), r.Finite()
		}
		tab.a = append(tab.a, []D{toD(x), toD(y)})
	}
	tab.in = []byte("1234567890123456789012345678901234567890.5e-3")
	tab.text = "-00012.3456789012345678901234567890123456789e+12"
	tab.seq = make([][]uint64, nrec)
	for i := range tab.a {
		tab.seq[i] = make([]uint64, len(tab.ops))
		for o := range tab.ops {
			tab.seq[i][o] = h64(runOpRaw(&tab.ops[o], tab.a[i]))
		}
	}
	return tab
}

// ---------- driver ----------

func runC20(c *Ctx) {
	sanitizer := c.Build == "race" || c.Build == "asan" || c.Build == "checkptr"
	var caseFile *os.File
	if sanitizer {
		if p := os.Getenv("VERIF_CASEFILE"); p != "" {
			caseFile, _ = os.Create(p)
		}
	}
	if !sanitizer {
		// a runaway allocation inside the library must fail fast instead of
		// exhausting the machine (not under the sanitizers, which reserve huge
		// address ranges themselves)
		lim := syscall.Rlimit{Cur: 48 << 30, Max: 48 << 30}
		_ = syscall.Setrlimit(syscall.RLIMIT_AS, &lim)
	}
	initialMode := decimal128.DefaultRoundingMode
	e0, pi0, phi0 := toB(decimal128.E()), toB(decimal128.Pi()), toB(decimal128.Phi())

	// watchdog over all shards
	slots := make([]*caseSlot, c.Shards)
	for i := range slots {
		slots[i] = &caseSlot{file: caseFile, off: int64(i) * slotSize}
	}
	stop := make(chan struct{})
	var stuck atomic.Value
	go func() {
		t := time.NewTicker(2 * time.Second)
		defer t.Stop()
		for {
			select {
			case <-stop:
				return
			case <-t.C:
				now := time.Now().UnixNano()
				for _, s := range slots {
					st := s.start.Load()
					if st != 0 && now-st > int64(120*time.Second) {
						d, _ := s.desc.Load().(string)
						stuck.Store(d)
						// the call cannot be interrupted: report and leave
						col := c.Col
						sh := mon.NewShard(0, "watchdog")
						cs := c.NewCase(sh, "watchdog")
						cs.S = []string{d}
						sh.Violate(cs, "no-progress", "every call returns (bounded progress: 120 s)", "a call has been running for more than 120 s", d)
						col.Merge(sh)
						res := col.Finish()
						res.Write(os.Getenv("VERIF_OUT"))
						os.Exit(0)
					}
				}
			}
		}
	}()

	apiSeen := map[string]int64{}
	var apiMu sync.Mutex
	c.Parallel("hostile", ref.NearestEven, func(sh *mon.Shard, r *gen.RNG) {
		j := &totalJudge{ctx: c, sh: sh, slot: slots[sh.ID], calls: map[string]int64{}}
		j.z.r = r
		n := c.N(600, 12000)
		for i := 0; i < n; i++ {
			j.z.refill(i*c.Shards + sh.ID)
			j.oneRound()
			if i%8 == 7 {
				j.checkRing()
			}
		}
		j.checkRing()
		apiMu.Lock()
		for k, v := range j.calls {
			apiSeen[k] += v
		}
		apiMu.Unlock()
	})
	close(stop)

	// purity of package-level state
	shp := mon.NewShard(0, "purity")
	if decimal128.DefaultRoundingMode != initialMode || toB(decimal128.E()) != e0 || toB(decimal128.Pi()) != pi0 || toB(decimal128.Phi()) != phi0 {
		cs := c.NewCase(shp, "package-state")
		shp.Violate(cs, "shared-state-modified", "DefaultRoundingMode and the package constants unchanged", fmt.Sprintf("mode=%v", decimal128.DefaultRoundingMode), "")
	}
	shp.Evals++
	shp.Cell("package-state-checked")

	// concurrency
	tab := buildConcTable(c)
	reps := c.N(2, 6)
	for rep := 0; rep < reps; rep++ {
		G := []int{16, 64}[rep%2]
		procs := []int{16, 4}[(rep/2)%2]
		c.concurrencyPhase(rep, G, procs, tab, shp)
	}
	if decimal128.DefaultRoundingMode != initialMode || toB(decimal128.E()) != e0 {
		cs := c.NewCase(shp, "package-state")
		shp.Violate(cs, "shared-state-modified", "package state unchanged after the concurrent phase", "changed", "")
	}
	c.Col.Merge(shp)
	names := []string{}
	for k := range apiSeen {
		names = append(names, k)
	}
	c.Col.Res.Extra["api_exercised"] = names
	c.Col.Res.Extra["concurrent_operations"] = len(tab.ops)
	c.Col.Res.Extra["shared_operand_records"] = len(tab.a)
	c.Col.Res.Targets = append(c.Col.Res.Targets,
		mon.Target{Prefix: "documented-panic/", Total: 11, Min: 10},
		mon.Target{Prefix: "concurrent/config/", Total: 4, Min: 2},
	)
	if caseFile != nil {
		caseFile.Close()
	}
}

func replayC20(c *Ctx, sh *mon.Shard, cs *mon.Case) {
	if len(cs.X) < 2 || len(cs.S) < 2 || len(cs.N) < 3 {
		return
	}
	j := &totalJudge{ctx: c, sh: sh, slot: &caseSlot{}, calls: map[string]int64{}}
	j.z.X, _ = ref.ParseHex(cs.X[0])
	j.z.Y, _ = ref.ParseHex(cs.X[1])
	j.z.S, j.z.Spec = cs.S[0], cs.S[1]
	j.z.B = []byte(cs.S[0])
	j.z.I, j.z.M, j.z.P = int(cs.N[0]), decimal128.RoundingMode(cs.N[1]), int(cs.N[2])
	j.oneRound()
	j.checkRing()
}
