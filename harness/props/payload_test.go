package props

import "testing"

func TestPayloadMeaning(t *testing.T) {
	cases := []struct {
		a, b string
		ok   bool
	}{
		{"Quo(Zero, Zero)", "quo: 0 / 0", true},
		{"Add(Infinite, -Infinite)", "Add(+Inf, -Inf)", true},
		{"Add(Infinite, -Infinite)", "Add(-Inf, +Inf)", false},
		{"Log(-Finite)", "Log(NegFinite)", true},
		{"Log(-Finite)", "Log(Finite)", false},
		{"Mul(Zero, Infinite)", "Mul(Infinite, Zero)", false},
		{"Sqrt(-Infinite)", "sqrt of negative infinity", true},
		{"Pow(-Finite, Finite)", "Pow(-Finite, Finite)", true},
		{"Sub(Infinite, Infinite)", "Add(Infinite, Infinite)", false},
	}
	for _, c := range cases {
		if samePayloadMeaning(c.a, c.b) != c.ok {
			t.Errorf("%q vs %q: got %v", c.a, c.b, !c.ok)
		}
	}
}
