package props

import (
	"fmt"
	"math"
	"math/big"

	"github.com/woodsbury/decimal128"

	"verifharness/gen"
	"verifharness/mon"
	"verifharness/ref"
)

func init() {
	register(&Prop{
		ID: "C09",
		Rule: "float64/float32 bit patterns of every class (uniform bits, subnormals, 53-bit integers x 2^k, powers of two at every binary exponent, extremes) for FromFloat64/32 and the round trip; " +
			"Decimals with decimal exponents -400..330, 1..35 digit coefficients, exact midpoints between adjacent float64s truncated/rounded to 34 digits, values around MaxFloat64 and the smallest subnormal for Float64/Float32; " +
			"Float with precisions 1..300 (nil, 0, modes) and FromFloat of big.Floats up to 25000-bit exponents. Oracle: exact big.Rat of the float, adjacency tested with Nextafter on exact rationals, big.Float correctly rounded reference. " +
			"non-trivial = conversion is inexact (or a range edge); distinct = distinct (op, argument bits).",
		Run:    runC09,
		Replay: replayC09,
		Assume: []string{"math/big Rat/Float conversions (SetFloat64, Float64, SetRat) are exact / correctly rounded"},
		Cover:  []string{"FromFloat64", "FromFloat32", "FromFloat", "Decimal.Float64", "Decimal.Float32", "Decimal.Float", "RoundingMode.reduce256"},
	})
}

type floatJudge struct {
	ctx *Ctx
	sh  *mon.Shard
}

var (
	two1024 = new(big.Rat).SetInt(new(big.Int).Lsh(ref.One, 1024))
	two128  = new(big.Rat).SetInt(new(big.Int).Lsh(ref.One, 128))
)

// judgeFromFloat64 checks FromFloat64 (and FromFloat32 when is32) and the
// round trip.
func (j *floatJudge) judgeFromFloat(bits uint64, is32 bool, only string) {
	var f float64
	op := "FromFloat64"
	if is32 {
		f = float64(math.Float32frombits(uint32(bits)))
		op = "FromFloat32"
	} else {
		f = math.Float64frombits(bits)
	}
	if only != "" && only != op {
		return
	}
	def := ref.Mode(currentDefault())
	mk := func() *mon.Case {
		c := j.ctx.NewCase(j.sh, op)
		c.F = []uint64{bits}
		return c
	}
	var d D
	pv, pan := try(func() {
		if is32 {
			d = decimal128.FromFloat32(math.Float32frombits(uint32(bits)))
		} else {
			d = decimal128.FromFloat64(f)
		}
	})
	got := num(d)
	nontriv := false
	var ex *ref.Exact
	if !math.IsNaN(f) && !math.IsInf(f, 0) && f != 0 {
		v := new(big.Rat).SetFloat64(f)
		ex = ref.Prepare(f < 0, new(big.Int).Abs(v.Num()), v.Denom())
		nontriv = !ex.IsExact
	}
	j.sh.Eval(hash2(op, bits, uint64(def)), nontriv)
	if pan {
		j.sh.Violate(mk(), "panic", "no panic", fmt.Sprint(pv), "")
		return
	}
	detail := fmt.Sprintf("f=%v (bits %#x) def=%v", f, bits, def)
	switch {
	case math.IsNaN(f):
		j.sh.Cell("from/nan")
		if got.Class != ref.NaN {
			j.sh.Violate(mk(), "class", "NaN", got.String(), detail)
		}
		return
	case math.IsInf(f, 0):
		j.sh.Cell("from/inf")
		if got.Class != ref.Inf || got.Neg != (f < 0) {
			j.sh.Violate(mk(), "class", fmt.Sprintf("Inf neg=%v", f < 0), got.String(), detail)
		}
		return
	case f == 0:
		j.sh.Cell("from/zero")
		if !got.IsZero() || got.Neg != math.Signbit(f) {
			j.sh.Violate(mk(), "value", fmt.Sprintf("zero neg=%v", math.Signbit(f)), got.String(), detail)
		}
		return
	}
	w := ex.Round(ref.NearestEven, true)
	ok := w.Matches(got)
	if !ok && def != ref.NearestEven {
		// the statement fixes nearest-even; the code follows the default mode: accept both
		ok = ex.Round(def, true).Matches(got)
	}
	if !ok {
		j.sh.Violate(mk(), "value", w.String(), got.String(), detail)
		return
	}
	if ex.IsExact {
		j.sh.Cell("from/exact")
	} else {
		j.sh.Cell("from/rounded")
		if ex.Guard == 5 && !ex.Sticky {
			j.sh.Cell("from/tie")
		}
	}
	_, be := math.Frexp(f)
	j.sh.Cell(fmt.Sprintf("binexp/%d", be/16))
	if math.Abs(f) < 2.2250738585072014e-308 {
		j.sh.Cell("from/subnormal")
	}
	// round trip (nearest-even default only: the property speaks of the default behaviour)
	if def == ref.NearestEven {
		var back float64
		var back32 float32
		_, pan2 := try(func() {
			if is32 {
				back32 = d.Float32()
			} else {
				back = d.Float64()
			}
		})
		j.sh.Eval(hash2(op+"-roundtrip", bits), nontriv)
		if pan2 {
			j.sh.Violate(mk(), "panic", "no panic", "panic in round trip", detail)
		} else if is32 {
			if math.Float32bits(back32) != uint32(bits) {
				j.sh.Violate(mk(), "roundtrip", fmt.Sprintf("Float32 back to %v", math.Float32frombits(uint32(bits))), fmt.Sprintf("%v via %v", back32, got), detail)
			}
		} else if math.Float64bits(back) != bits {
			j.sh.Violate(mk(), "roundtrip", fmt.Sprintf("Float64 back to %v", f), fmt.Sprintf("%v via %v", back, got), detail)
		}
		j.sh.Cell("roundtrip")
	}
	if nontriv && j.sh.Evals%60000 < 2 {
		j.sh.Sample(mk())
	}
}

// adjacentOK reports whether float g is an acceptable Float64/Float32 result
// for the exact non-zero value v.
func adjacentOK(g float64, v *big.Rat, is32 bool) (bool, string) {
	neg := v.Sign() < 0
	if math.IsNaN(g) {
		return false, "a number"
	}
	if math.Signbit(g) != neg {
		return false, "correct sign"
	}
	av := new(big.Rat).Abs(v)
	ag := math.Abs(g)
	var nearest float64
	var exact bool
	var maxF float64
	var limit *big.Rat
	var tiny float64
	if is32 {
		n32, e := av.Float32()
		nearest, exact = float64(n32), e
		maxF = math.MaxFloat32
		limit = two128
		tiny = float64(math.SmallestNonzeroFloat32)
	} else {
		nearest, exact = av.Float64()
		maxF = math.MaxFloat64
		limit = two1024
		tiny = math.SmallestNonzeroFloat64
	}
	if exact {
		return ag == nearest, fmt.Sprintf("exactly %v (representable)", nearest)
	}
	if math.IsInf(ag, 0) {
		// only above the float range
		return av.Cmp(new(big.Rat).SetFloat64(maxF)) > 0, "finite (value within the float range)"
	}
	if av.Cmp(limit) >= 0 {
		return false, "Inf (value at or beyond 2^emax)"
	}
	if ag == 0 {
		return av.Cmp(new(big.Rat).SetFloat64(tiny)) < 0, "non-zero (value at or above the smallest subnormal)"
	}
	// pred(g) < v < succ(g)
	var lo, hi float64
	if is32 {
		lo = float64(math.Nextafter32(float32(ag), 0))
		hi = float64(math.Nextafter32(float32(ag), float32(math.Inf(1))))
	} else {
		lo = math.Nextafter(ag, 0)
		hi = math.Nextafter(ag, math.Inf(1))
	}
	if av.Cmp(new(big.Rat).SetFloat64(lo)) <= 0 {
		return false, fmt.Sprintf("a float adjacent to the value (nearest is %v)", nearest)
	}
	if !math.IsInf(hi, 0) && av.Cmp(new(big.Rat).SetFloat64(hi)) >= 0 {
		return false, fmt.Sprintf("a float adjacent to the value (nearest is %v)", nearest)
	}
	return true, ""
}

func (j *floatJudge) judgeToFloat(b ref.Bits, only string) {
	n := ref.Decode(b)
	d := toD(b)
	mk := func(op string) *mon.Case {
		c := j.ctx.NewCase(j.sh, op)
		c.X = []string{b.Hex()}
		return c
	}
	for _, is32 := range []bool{false, true} {
		op := "Float64"
		if is32 {
			op = "Float32"
		}
		if only != "" && only != op {
			continue
		}
		var g float64
		pv, pan := try(func() {
			if is32 {
				g = float64(d.Float32())
			} else {
				g = d.Float64()
			}
		})
		if pan {
			j.sh.Eval(hash2(op, b.Hi, b.Lo), false)
			j.sh.Violate(mk(op), "panic", "no panic", fmt.Sprint(pv), "")
			continue
		}
		detail := fmt.Sprintf("d=%v", n)
		switch {
		case n.Class == ref.NaN:
			j.sh.Eval(hash2(op, b.Hi, b.Lo), false)
			if !math.IsNaN(g) {
				j.sh.Violate(mk(op), "class", "NaN", fmt.Sprint(g), detail)
			}
		case n.Class == ref.Inf:
			j.sh.Eval(hash2(op, b.Hi, b.Lo), false)
			if !math.IsInf(g, 0) || (g < 0) != n.Neg {
				j.sh.Violate(mk(op), "class", fmt.Sprintf("Inf neg=%v", n.Neg), fmt.Sprint(g), detail)
			}
		case n.IsZero():
			j.sh.Eval(hash2(op, b.Hi, b.Lo), false)
			if g != 0 || math.Signbit(g) != n.Neg {
				j.sh.Violate(mk(op), "value", fmt.Sprintf("zero neg=%v", n.Neg), fmt.Sprint(g), detail)
			}
		default:
			v := n.Rat()
			ok, want := adjacentOK(g, v, is32)
			_, exact := new(big.Rat).Abs(v).Float64()
			if is32 {
				_, exact = new(big.Rat).Abs(v).Float32()
			}
			j.sh.Eval(hash2(op, b.Hi, b.Lo), !exact)
			if !ok {
				j.sh.Violate(mk(op), "value", want, fmt.Sprintf("%v (bits %#x)", g, math.Float64bits(g)), detail)
			} else {
				switch {
				case math.IsInf(g, 0):
					j.sh.Cell("to/" + op + "/overflow")
				case g == 0:
					j.sh.Cell("to/" + op + "/underflow")
				case exact:
					j.sh.Cell("to/" + op + "/exact")
				default:
					j.sh.Cell("to/" + op + "/inexact")
				}
				if !is32 {
					e := n.Exp
					if e >= -400 && e <= 330 {
						j.sh.Cell(fmt.Sprintf("decexp/%d", (e+400)/10))
					}
				}
			}
		}
	}
	if j.sh.Evals%60000 < 2 {
		j.sh.Sample(mk("Float64"))
	}
}

// judgeBigFloat checks Decimal.Float with a chosen precision/mode and
// FromFloat of the produced big.Float.
func (j *floatJudge) judgeFloat(b ref.Bits, prec uint, mode big.RoundingMode, useNil bool, only string) {
	if only != "" && only != "Float" {
		return
	}
	n := ref.Decode(b)
	d := toD(b)
	mk := func() *mon.Case {
		c := j.ctx.NewCase(j.sh, "Float")
		c.X = []string{b.Hex()}
		nilv := int64(0)
		if useNil {
			nilv = 1
		}
		c.N = []int64{int64(prec), int64(mode), nilv}
		return c
	}
	var res *big.Float
	var arg *big.Float
	if !useNil {
		arg = new(big.Float).SetPrec(prec).SetMode(mode)
	}
	pv, pan := try(func() { res = d.Float(arg) })
	j.sh.Eval(hash2("Float", b.Hi, b.Lo, uint64(prec), uint64(mode)), n.Class == ref.Finite && !n.IsZero())
	detail := fmt.Sprintf("d=%v prec=%d mode=%v nil=%v", n, prec, mode, useNil)
	if n.Class == ref.NaN {
		if !pan {
			j.sh.Violate(mk(), "panic-expected", "documented panic on NaN", "returned", detail)
		}
		j.sh.Cell("Float/nan-panic")
		return
	}
	if pan {
		j.sh.Violate(mk(), "panic", "no panic", fmt.Sprint(pv), detail)
		return
	}
	if !useNil && res != arg {
		j.sh.Violate(mk(), "result-identity", "the provided *big.Float is returned", "a different pointer", detail)
		return
	}
	effPrec := prec
	if useNil || prec == 0 {
		effPrec = 128
	}
	if n.Class != ref.Inf && res.Prec() != effPrec {
		// (the precision of an infinite result is not part of the statement)
		j.sh.Violate(mk(), "precision", fmt.Sprintf("result precision %d", effPrec), fmt.Sprint(res.Prec()), detail)
		return
	}
	switch {
	case n.Class == ref.Inf:
		if !res.IsInf() || res.Signbit() != n.Neg {
			j.sh.Violate(mk(), "class", fmt.Sprintf("Inf neg=%v", n.Neg), res.String(), detail)
		}
		j.sh.Cell("Float/inf")
		return
	case n.IsZero():
		if res.Sign() != 0 {
			j.sh.Violate(mk(), "value", "zero", res.String(), detail)
		}
		j.sh.Cell("Float/zero")
		return
	}
	v := n.Rat()
	effMode := mode
	if useNil {
		effMode = big.ToNearestEven
	}
	if effPrec >= 114 {
		want := new(big.Float).SetPrec(effPrec).SetMode(effMode)
		want.SetRat(v)
		if want.Cmp(res) != 0 {
			j.sh.Violate(mk(), "value", "correctly rounded "+want.Text('g', 50), res.Text('g', 50), detail)
			return
		}
		j.sh.Cell("Float/correctly-rounded")
	} else {
		// |res - v| <= 2^(1-prec) |v|
		rr, _ := res.Rat(nil)
		if rr == nil {
			j.sh.Violate(mk(), "value", "finite", res.String(), detail)
			return
		}
		diff := new(big.Rat).Sub(rr, v)
		diff.Abs(diff)
		bound := new(big.Rat).Abs(v)
		// multiply by 2^(1-prec)
		bound.Quo(bound, new(big.Rat).SetInt(new(big.Int).Lsh(ref.One, effPrec-1)))
		if diff.Cmp(bound) > 0 {
			j.sh.Violate(mk(), "value", "relative error <= 2^(1-prec)", res.Text('g', 50), detail)
			return
		}
		j.sh.Cell("Float/within-bound")
	}
	j.sh.Cell(fmt.Sprintf("Float/prec/%d", effPrec/16))
}

func (j *floatJudge) judgeFromBigFloat(f *big.Float, only string) {
	if only != "" && only != "FromFloat" {
		return
	}
	mk := func() *mon.Case {
		c := j.ctx.NewCase(j.sh, "FromFloat")
		c.S = []string{f.Text('p', 0), fmt.Sprint(f.Prec())}
		return c
	}
	snapshot := new(big.Float).Copy(f)
	var d D
	pv, pan := try(func() { d = decimal128.FromFloat(f) })
	j.sh.Eval(hashStr("FromFloat", f.Text('p', 0)), !f.IsInf() && f.Sign() != 0)
	if pan {
		j.sh.Violate(mk(), "panic", "no panic", fmt.Sprint(pv), "")
		return
	}
	if f.Cmp(snapshot) != 0 || f.Prec() != snapshot.Prec() || f.Signbit() != snapshot.Signbit() {
		j.sh.Violate(mk(), "input-modified", "argument unchanged", f.String(), "")
		return
	}
	got := num(d)
	switch {
	case f.IsInf():
		if got.Class != ref.Inf || got.Neg != f.Signbit() {
			j.sh.Violate(mk(), "class", "Inf with the argument's sign", got.String(), "")
		}
		j.sh.Cell("FromFloat/inf")
		return
	case f.Sign() == 0:
		if !got.IsZero() || got.Neg != f.Signbit() {
			j.sh.Violate(mk(), "value", fmt.Sprintf("zero neg=%v", f.Signbit()), got.String(), "")
		}
		j.sh.Cell("FromFloat/zero")
		return
	}
	v, _ := f.Rat(nil)
	av := new(big.Rat).Abs(v)
	ex := ref.Prepare(v.Sign() < 0, av.Num(), av.Denom())
	lo := ex.Round(ref.ToZero, false)
	hi := ex.Round(ref.AwayFromZero, false)
	// accept anything within 2e-33 relative, or within one subnormal unit, of v;
	// Inf only if the value rounds (some way) to Inf; zero only if tiny.
	if got.Class == ref.NaN || (got.Class == ref.Finite && !got.IsZero() && got.Neg != (v.Sign() < 0)) {
		j.sh.Violate(mk(), "value", "within 2e-33 of the argument", got.String(), "")
		return
	}
	if got.Class == ref.Inf {
		if !hi.Inf || got.Neg != (v.Sign() < 0) {
			j.sh.Violate(mk(), "class", "finite", got.String(), "")
		}
		j.sh.Cell("FromFloat/overflow")
		return
	}
	if lo.Inf {
		j.sh.Violate(mk(), "class", "Inf (beyond MaxFinite)", got.String(), "")
		return
	}
	gr := got.Rat()
	diff := new(big.Rat).Sub(gr, v)
	diff.Abs(diff)
	bound := new(big.Rat).Mul(av, big.NewRat(2, 1))
	bound.Quo(bound, new(big.Rat).SetInt(ref.Pow10(33)))
	unit := new(big.Rat).SetFrac(ref.One, ref.Pow10(6176))
	if bound.Cmp(unit) < 0 {
		bound = unit
	}
	if diff.Cmp(bound) > 0 {
		j.sh.Violate(mk(), "value", "within 2e-33 relative of the argument", got.String(), "f="+f.Text('g', 40))
		return
	}
	if ex.IsExact {
		j.sh.Cell("FromFloat/exact")
	} else {
		j.sh.Cell("FromFloat/rounded")
	}
}

func genFloat64Bits(r *gen.RNG) uint64 {
	switch r.Intn(10) {
	case 0:
		return r.U64()
	case 1: // subnormal
		return (r.U64()&0x800f_ffff_ffff_ffff)>>uint(r.Intn(52))&0x800f_ffff_ffff_ffff | (r.U64() & (1 << 63))
	case 2: // power of two at every binary exponent
		e := uint64(r.Range(0, 2046))
		return e<<52 | (r.U64() & (1 << 63))
	case 3: // 53-bit integer times 2^k
		m := r.U64() >> uint(r.Range(11, 63))
		f := math.Ldexp(float64(m), r.Range(-1074, 970))
		return math.Float64bits(f) | (r.U64() & (1 << 63))
	case 4: // extremes
		vals := []float64{math.MaxFloat64, math.SmallestNonzeroFloat64, 2.2250738585072014e-308, 2.225073858507201e-308, 1, 0.1, 0.5, 1e22, 1e23, 9007199254740993, math.Inf(1), math.NaN(), 0, math.Copysign(0, -1)}
		return math.Float64bits(vals[r.Intn(len(vals))]) ^ (r.U64() & (1 << 63))
	case 5: // decimal-looking values
		f := float64(r.Intn(1000000)) * math.Pow(10, float64(r.Range(-330, 300)))
		return math.Float64bits(f)
	case 7: // result-driven: the float nearest to T*10^e for a coefficient T next to an internal threshold of the
		// result path (its decimal expansion then starts with T's digits to 16 places)
		T := r.ThresholdFull()
		e := r.Range(-340, 270)
		var q *big.Rat
		if e >= 0 {
			q = new(big.Rat).SetInt(new(big.Int).Mul(T, ref.Pow10(e)))
		} else {
			q = new(big.Rat).SetFrac(T, ref.Pow10(-e))
		}
		f, _ := q.Float64()
		if math.IsInf(f, 0) || f == 0 {
			f = 1
		}
		return math.Float64bits(f) | (r.U64() & (1 << 63))
	case 8: // integer-valued floats whose multi-word image has a top word equal to a fast-path divisor: D * 2^(64j) * (1+tiny)
		d := []float64{10, 100, 1000, 10000, 100000000, 1e19, 1}[r.Intn(7)]
		f := math.Ldexp(d, 64*r.Range(1, 3))
		bits := math.Float64bits(f) + uint64(r.Pick(0, 0, 1, r.Intn(1<<20), r.Intn(1<<27)))
		if r.Chance(1, 8) {
			bits = math.Float64bits(f) - uint64(r.Range(1, 3))
		}
		return bits | (r.U64() & (1 << 63))
	case 6: // mantissa all ones / few bits
		e := uint64(r.Range(0, 2046))
		m := uint64(0x000f_ffff_ffff_ffff)
		if r.Bool() {
			m = 1 << uint(r.Intn(52))
		}
		return e<<52 | m | (r.U64() & (1 << 63))
	}
	e := uint64(r.Range(0, 2046))
	return e<<52 | (r.U64() & 0x800f_ffff_ffff_ffff)
}

func genFloat32Bits(r *gen.RNG) uint64 {
	switch r.Intn(5) {
	case 0:
		return uint64(uint32(r.U64()))
	case 1: // subnormal
		return uint64(uint32(r.U64()) & 0x807f_ffff)
	case 2:
		return uint64(uint32(r.Range(0, 254))<<23 | uint32(r.U64())&0x8000_0000)
	case 3:
		vals := []float32{math.MaxFloat32, math.SmallestNonzeroFloat32, 1, 0.1, 16777217, float32(math.Inf(-1)), float32(math.NaN()), 0}
		return uint64(math.Float32bits(vals[r.Intn(len(vals))]))
	}
	return uint64(uint32(r.Range(0, 254))<<23 | uint32(r.U64())&0x807f_ffff)
}

// halfwayDecimal returns a Decimal next to an exact midpoint between two
// adjacent float64 values (truncated or rounded to at most 34 digits).
func halfwayDecimal(r *gen.RNG) ref.Bits {
	bits := genFloat64Bits(r) &^ (1 << 63)
	f := math.Float64frombits(bits)
	if math.IsNaN(f) || math.IsInf(f, 0) || f == math.MaxFloat64 {
		f = 1.5
	}
	g := math.Nextafter(f, math.Inf(1))
	mid := new(big.Rat).Add(new(big.Rat).SetFloat64(f), new(big.Rat).SetFloat64(g))
	mid.Quo(mid, big.NewRat(2, 1))
	if mid.Sign() == 0 {
		return ref.Encode(false, big.NewInt(1), -330)
	}
	ex := ref.Prepare(r.Bool(), mid.Num(), mid.Denom())
	var w ref.Rounded
	switch r.Intn(3) {
	case 0:
		w = ex.Round(ref.ToZero, false)
	case 1:
		w = ex.Round(ref.AwayFromZero, false)
	default:
		w = ex.Round(ref.NearestEven, false)
	}
	if w.Inf {
		return ref.Encode(false, ref.Cmax, 300)
	}
	c := w.Coef
	e := w.Exp
	// optionally shorten to fewer digits (truncate) to vary the distance to the midpoint
	if cut := r.Pick(0, 0, 0, 1, 5, 15); cut > 0 && ref.NumDigits(c) > cut+2 {
		c = new(big.Int).Quo(c, ref.Pow10(cut))
		e += cut
		if r.Bool() {
			c = new(big.Int).Add(c, ref.One)
		}
	}
	if e > ref.MaxExp || e < ref.MinExp || c.Cmp(ref.Cmax) > 0 {
		return ref.Encode(false, big.NewInt(15), -1)
	}
	return ref.Encode(ex.Neg, c, e)
}

func genDecimalForFloat(r *gen.RNG) ref.Bits {
	switch r.Intn(10) {
	case 0, 1, 2:
		return halfwayDecimal(r)
	case 3: // around MaxFloat64 and the smallest subnormal
		var base *big.Rat
		if r.Bool() {
			base = new(big.Rat).SetFloat64(math.MaxFloat64)
		} else {
			base = new(big.Rat).SetFloat64(math.SmallestNonzeroFloat64)
			base.Mul(base, big.NewRat(int64(r.Pick(4, 5, 6, 10, 15, 20)), 10))
		}
		ex := ref.Prepare(r.Bool(), base.Num(), base.Denom())
		w := ex.Round(ref.Mode(r.Intn(6)), false)
		c := new(big.Int).Add(w.Coef, big.NewInt(int64(r.Range(-3, 3))))
		if c.Sign() <= 0 || c.Cmp(ref.Cmax) > 0 {
			c = w.Coef
		}
		return ref.Encode(ex.Neg, c, w.Exp)
	case 4: // float32 range edges
		var base *big.Rat
		if r.Bool() {
			base = new(big.Rat).SetFloat64(math.MaxFloat32)
		} else {
			base = new(big.Rat).SetFloat64(float64(math.SmallestNonzeroFloat32))
		}
		base.Mul(base, big.NewRat(int64(r.Range(4, 21)), 10))
		ex := ref.Prepare(r.Bool(), base.Num(), base.Denom())
		w := ex.Round(ref.NearestEven, false)
		return ref.Encode(ex.Neg, w.Coef, w.Exp)
	case 5: // exactly representable decimals: m * 2^k
		if b, _, ok := float64Exact(r, false); ok {
			return b
		}
		fallthrough
	case 6:
		return r.AnyBits()
	}
	c, _ := r.Coef()
	return ref.Encode(r.Bool(), c, r.Range(-400, 330))
}

func genBigFloat(r *gen.RNG) *big.Float {
	prec := uint(r.Pick(1, 24, 53, 64, 113, 128, 200, r.Range(1, 400)))
	f := new(big.Float).SetPrec(prec)
	switch r.Intn(8) {
	case 0:
		return f.SetInf(r.Bool())
	case 1:
		if r.Bool() {
			f.Neg(f)
		}
		return f
	}
	m := r.BigBelow(new(big.Int).Lsh(ref.One, prec))
	m.Add(m, ref.One)
	f.SetInt(m)
	var e int
	switch r.Intn(4) {
	case 0:
		e = r.Range(-200, 200)
	case 1:
		e = r.Range(-20600, -20300) // around the smallest subnormal (2^-20517)
	case 2:
		e = r.Range(20200, 20500) // around MaxFinite (2^20414)
	default:
		e = r.Range(-25000, 25000)
	}
	f.SetMantExp(f, e-int(prec))
	if r.Bool() {
		f.Neg(f)
	}
	return f
}

func runC09(c *Ctx) {
	for def := ref.Mode(0); def < ref.NumModes; def++ {
		c.Parallel("from", def, func(sh *mon.Shard, r *gen.RNG) {
			j := &floatJudge{ctx: c, sh: sh}
			n := c.N(60000, 300000)
			if def != ref.NearestEven {
				n /= 8
			}
			for i := 0; i < n; i++ {
				if i%4 == 3 {
					j.judgeFromFloat(genFloat32Bits(r), true, "")
				} else {
					j.judgeFromFloat(genFloat64Bits(r), false, "")
				}
			}
			if def == ref.NearestEven {
				// high-volume screen with the cheapest observer the statement offers - the round trip
				// FromFloat64(f).Float64() == f - over floats with fractional bits (carry chains of the
				// 10^38 scaling depend on the significand alone); a float that fails the screen is handed
				// to the full oracle, which records the violation
				m := c.N(400000, 3000000)
				for i := 0; i < m; i++ {
					e := uint64(r.Pick(r.Range(960, 1074), r.Range(1, 2046)))
					bits := e<<52 | r.U64()&0x800f_ffff_ffff_ffff
					f := math.Float64frombits(bits)
					var back float64
					_, pan := try(func() { back = decimal128.FromFloat64(f).Float64() })
					if pan || back != f {
						j.judgeFromFloat(bits, false, "")
						j.sh.Cell("from/screen-failed")
					}
				}
				j.sh.CellN("from/roundtrip-screened", int64(m))
			}
		})
	}
	c.Parallel("to", ref.NearestEven, func(sh *mon.Shard, r *gen.RNG) {
		j := &floatJudge{ctx: c, sh: sh}
		// systematic: every one-digit coefficient (and a two-digit cohort sibling) at every
		// decimal exponent of the float ranges, both signs
		kk := 0
		for e := -420; e <= 340; e++ {
			for dgt := int64(1); dgt <= 9; dgt++ {
				kk++
				if kk%c.Shards != sh.ID {
					continue
				}
				j.judgeToFloat(ref.Encode(kk%2 == 0, big.NewInt(dgt), e), "")
				j.judgeToFloat(ref.Encode(kk%2 == 1, big.NewInt(dgt*10), e-1), "")
			}
		}
		n := c.N(40000, 400000)
		for i := 0; i < n; i++ {
			b := genDecimalForFloat(r)
			j.judgeToFloat(b, "")
			if i%4 == 0 {
				prec := uint(r.Pick(0, 1, 2, 24, 53, 64, 113, 114, 115, 128, 200, 300, r.Range(1, 300)))
				mode := big.RoundingMode(r.Pick(0, 0, 0, 1, 2, 3, 4, 5))
				if prec != 0 && prec < 114 && mode > 1 {
					mode = big.ToNearestEven // the stated bound is not claimed for directed big.Float modes at low precision
				}
				j.judgeFloat(b, prec, mode, r.Chance(1, 5), "")
			}
			if i%8 == 1 {
				j.judgeFromBigFloat(genBigFloat(r), "")
			}
		}
	})
	c.Col.Res.Targets = append(c.Col.Res.Targets,
		mon.Target{Prefix: "binexp/", Total: 132, Min: 125},
		mon.Target{Prefix: "decexp/", Total: 74, Min: 70},
		mon.Target{Prefix: "to/", Total: 8, Min: 8},
		mon.Target{Prefix: "Float/prec/", Total: 19, Min: 15},
	)
}

func replayC09(c *Ctx, sh *mon.Shard, cs *mon.Case) {
	j := &floatJudge{ctx: c, sh: sh}
	switch cs.Op {
	case "FromFloat64":
		j.judgeFromFloat(cs.F[0], false, cs.Op)
	case "FromFloat32":
		j.judgeFromFloat(cs.F[0], true, cs.Op)
	case "Float64", "Float32":
		b, _ := ref.ParseHex(cs.X[0])
		j.judgeToFloat(b, cs.Op)
	case "Float":
		b, _ := ref.ParseHex(cs.X[0])
		j.judgeFloat(b, uint(cs.N[0]), big.RoundingMode(cs.N[1]), cs.N[2] == 1, "")
	case "FromFloat":
		prec, _ := fmt.Sscan(cs.S[1])
		_ = prec
		var p uint
		fmt.Sscan(cs.S[1], &p)
		f, _, err := big.ParseFloat(cs.S[0], 0, p, big.ToNearestEven)
		if err == nil {
			j.judgeFromBigFloat(f, "")
		}
	}
}
