package props

import (
	"errors"
	"fmt"
	"math/big"
	"strconv"
	"strings"

	"github.com/woodsbury/decimal128"

	"verifharness/gen"
	"verifharness/mon"
	"verifharness/ref"
)

func init() {
	register(&Prop{
		ID: "C05",
		Rule: "strings from a literal builder (integer/fraction digit counts 0..70000, leading zeros, 34/35-digit prefixes + guard digit + sticky tails straddling the 38/39-digit cut-off, exponent fields of any size incl. compensating ones, " +
			"magnitudes straddling 1e-6177, 1e-6176 and MaxFinite, underscores, special names in any case) and byte-level mutations of them. Each string goes through Parse, MustParse, UnmarshalText and (when it is a scannable token) fmt.Sscan, " +
			"under each DefaultRoundingMode (6 phases). Oracle: the harness's own recogniser of the documented grammar and the exact big.Int value of the literal rounded into the member set. " +
			"non-trivial = a well-formed literal whose exact value is not a member (rounding needed), or lies outside the range, or a string the grammar rejects; distinct = distinct (entry point, string).",
		Run:    runC05,
		Replay: replayC05,
		Assume: []string{"harness grammar recogniser reflects the documented syntax; undecided shapes ('_' inside the exponent, signed nan) are only checked for no panic / natural value"},
		Cover:  []string{"parseNumber", "parse", "Decimal.Scan", "Decimal.UnmarshalText", "MustParse"},
	})
}

type parseJudge struct {
	ctx *Ctx
	sh  *mon.Shard
}

type parseOutcome struct {
	d        D
	err      error
	panicked bool
	pv       any
}

func errClass(err error) string {
	switch {
	case err == nil:
		return "nil"
	case errors.Is(err, strconv.ErrSyntax):
		return "ErrSyntax"
	case errors.Is(err, strconv.ErrRange):
		return "ErrRange"
	}
	return "other(" + err.Error() + ")"
}

func lenClass(n int) string {
	switch {
	case n <= 19:
		return "<=19"
	case n <= 34:
		return "20-34"
	case n <= 39:
		return "35-39"
	case n <= 100:
		return "40-100"
	case n <= 1000:
		return "101-1000"
	case n <= 32767:
		return "1001-32767"
	case n <= 65535:
		return "32768-65535"
	}
	return ">65535"
}

func expFieldClass(l *ref.Literal) string {
	if l.ExpAbs == nil || l.ExpAbs.Sign() == 0 {
		return "0"
	}
	if !l.ExpAbs.IsInt64() {
		return "huge"
	}
	e := l.ExpAbs.Int64()
	switch {
	case e < 100:
		return "<100"
	case e < 6100:
		return "<6100"
	case e < 6190:
		return "6100-6189"
	case e < 32767:
		return "6190-32766"
	case e < 70000:
		return "32767-69999"
	}
	return ">=70000"
}

func (j *parseJudge) judge(s string, only string) {
	lit := ref.Classify(s)
	def := ref.Mode(currentDefault())
	var ex *ref.Exact
	zeroLit := false
	if lit.Class == ref.LitNumber || (lit.Class == ref.LitDontCare && !lit.SignedNaN) {
		if lit.Mant.Sign() == 0 {
			zeroLit = true
		} else {
			ex = ref.PrepareScaled(lit.Neg, lit.Mant, lit.Scale())
		}
	}
	var w1, w2 ref.Rounded
	if ex != nil {
		w1 = ex.Round(def, false)
		w2 = ex.Round(def, true)
	}
	nontriv := lit.Class == ref.LitReject || (ex != nil && (!ex.IsExact || w1.Inf || w2.Flush))
	// valueOK judges a returned value against the expectation for accepted input
	valueOK := func(got ref.Num) (bool, string) {
		switch {
		case lit.Class == ref.LitInf:
			return got.Class == ref.Inf && got.Neg == lit.Neg, fmt.Sprintf("Inf neg=%v", lit.Neg)
		case lit.Class == ref.LitNaN || lit.SignedNaN:
			return got.Class == ref.NaN, "NaN"
		case zeroLit:
			return got.IsZero() && got.Neg == lit.Neg, fmt.Sprintf("zero neg=%v", lit.Neg)
		}
		want := w1.String()
		if w2.Flush && !w1.IsZero() {
			want += " or signed zero"
		}
		return w1.Matches(got) || w2.Matches(got), want
	}
	mk := func(op string) *mon.Case {
		c := j.ctx.NewCase(j.sh, op)
		c.S = []string{s}
		return c
	}
	describe := func(o parseOutcome) string {
		if o.panicked {
			return fmt.Sprintf("panic: %v", o.pv)
		}
		return fmt.Sprintf("%v err=%s", num(o.d), errClass(o.err))
	}
	check := func(op string, o parseOutcome, mustPanicOnReject bool) {
		j.sh.Eval(hashStr(op, s, uint64(def)), nontriv)
		detail := fmt.Sprintf("class=%v len=%d def=%v", lit.Class, len(s), def)
		got := num(o.d)
		switch lit.Class {
		case ref.LitReject:
			if mustPanicOnReject {
				if !o.panicked {
					j.sh.Violate(mk(op), "accepted-invalid", "panic (invalid syntax)", describe(o), detail)
				}
				return
			}
			if o.panicked {
				j.sh.Violate(mk(op), "panic", "error matching ErrSyntax", describe(o), detail)
			} else if !errors.Is(o.err, strconv.ErrSyntax) {
				j.sh.Violate(mk(op), "accepted-invalid", "error matching ErrSyntax", describe(o), detail)
			}
		case ref.LitDontCare:
			if o.panicked && !mustPanicOnReject {
				j.sh.Violate(mk(op), "panic", "no panic", describe(o), detail)
				return
			}
			if !o.panicked && o.err == nil {
				if ok, want := valueOK(got); !ok {
					j.sh.Violate(mk(op), "value", want+" (if accepted)", describe(o), detail)
				}
			}
		default:
			overflow := ex != nil && w1.Inf
			if o.panicked {
				if mustPanicOnReject && overflow {
					return // MustParse may panic on an overflowing literal (statement ties the panic to errors only loosely)
				}
				j.sh.Violate(mk(op), "panic", "no panic", describe(o), detail)
				return
			}
			ok, want := valueOK(got)
			if overflow && !ok && (op == "UnmarshalText" || op == "Sscan") && got.IsZero() && !got.Neg && errors.Is(o.err, strconv.ErrRange) {
				// an unmarshaler/scanner that reports the range error and leaves
				// the (zero) receiver untouched is accepted as well as one that
				// stores +/-Inf: the statement does not say which
				ok = true
				j.sh.Cell("overflow-receiver-untouched")
			}
			wantErr := "nil"
			if overflow {
				wantErr = "ErrRange"
			}
			gotErr := errClass(o.err)
			if mustPanicOnReject {
				gotErr = wantErr // MustParse has no error result
			}
			if !ok {
				kind := "value"
				if errors.Is(o.err, strconv.ErrSyntax) {
					kind = "rejected-valid"
				}
				j.sh.Violate(mk(op), kind, want+" err="+wantErr, describe(o), detail)
			} else if gotErr != wantErr {
				j.sh.Violate(mk(op), "error", want+" err="+wantErr, describe(o), detail)
			}
		}
	}
	runOp := func(op string, f func() parseOutcome) {
		if only != "" && only != op {
			return
		}
		var o parseOutcome
		pv, pan := try(func() { o = f() })
		if pan {
			o = parseOutcome{panicked: true, pv: pv}
		}
		check(op, o, op == "MustParse")
	}
	runOp("Parse", func() parseOutcome {
		d, err := decimal128.Parse(s)
		return parseOutcome{d: d, err: err}
	})
	runOp("MustParse", func() parseOutcome {
		return parseOutcome{d: decimal128.MustParse(s)}
	})
	runOp("UnmarshalText", func() parseOutcome {
		var d D
		b := []byte(s)
		err := d.UnmarshalText(b)
		if string(b) != s {
			return parseOutcome{panicked: true, pv: "UnmarshalText modified its input"}
		}
		return parseOutcome{d: d, err: err}
	})
	// fmt.Sscan: only tokens that Scan reads in full and that are decided
	scannable := (lit.Class == ref.LitNumber) ||
		((lit.Class == ref.LitInf || lit.Class == ref.LitNaN) && len(strings.TrimLeft(s, "+-")) == 3)
	if scannable {
		runOp("Sscan", func() parseOutcome {
			var d D
			_, err := fmt.Sscan(s+" tail", &d)
			return parseOutcome{d: d, err: err}
		})
	}
	// evidence cells
	j.sh.Cell("class/" + lit.Class.String())
	if lit.Class == ref.LitNumber {
		j.sh.Cell("len/" + lenClass(lit.NDigits))
		j.sh.Cell("expfield/" + expFieldClass(&lit))
		if ex != nil {
			switch {
			case w1.Inf:
				j.sh.Cell("range/overflow")
			case w2.Flush:
				j.sh.Cell("range/below-1e-6177")
			case !ex.IsExact:
				j.sh.Cell(decisionCell("pdt", ex, def))
				if ex.Guard == 5 && !ex.Sticky {
					j.sh.Cell("tie")
				}
				if lit.NDigits > 39 && ex.Sticky {
					j.sh.Cell("sticky-after-cut-off")
				}
			}
			if !ex.Huge && ex.E == ref.MinExp && ex.Q.Cmp(c10e33) < 0 {
				j.sh.Cell("range/subnormal")
			}
		}
		if strings.Contains(s, "_") {
			j.sh.Cell("with-underscore")
		}
	}
	if nontriv && j.sh.Evals%20000 < 4 {
		j.sh.Sample(mk("Parse"))
	}
}

// ---- literal builder ----

func digitsString(r *gen.RNG, n int) string {
	if n <= 0 {
		return ""
	}
	b := make([]byte, n)
	mode := r.Intn(5)
	for i := range b {
		switch {
		case mode == 0:
			b[i] = '0'
		case mode == 1:
			b[i] = '9'
		case mode == 2 && r.Chance(7, 8):
			b[i] = '0'
		default:
			b[i] = byte('0' + r.Intn(10))
		}
	}
	return string(b)
}

var digitCounts = []int{0, 1, 2, 17, 18, 19, 20, 21, 33, 34, 35, 36, 37, 38, 39, 40, 57, 100}
var longCounts = []int{1000, 32766, 32767, 32768, 32769, 32770, 40000, 65534, 65535, 65536, 65537, 65540, 70000}

func pickDigitCount(r *gen.RNG, allowLong bool) int {
	if allowLong && r.Chance(1, 3) {
		return longCounts[r.Intn(len(longCounts))]
	}
	if r.Chance(1, 4) {
		return r.Range(0, 45)
	}
	return digitCounts[r.Intn(len(digitCounts))]
}

func expField(r *gen.RNG) string {
	var e int
	switch r.Intn(10) {
	case 0:
		return ""
	case 1:
		e = r.Range(-40, 40)
	case 2:
		e = r.Range(-7000, 7000)
	case 3:
		e = r.Pick(6176, 6111, 6145, 6144, 6146, 6190, 6189, 6177, 6178, 6210, 6215, 6216) + r.Range(-1, 1)
		if r.Bool() {
			e = -e
		}
	case 4:
		e = r.Pick(32766, 32767, 32768, 32769, 65535, 65536, 65537, 2147483647, 2147483646)
		if r.Bool() {
			e = -e
		}
	case 5:
		// 30-digit exponent
		s := "e"
		if r.Bool() {
			s = "E"
		}
		s += []string{"", "+", "-"}[r.Intn(3)]
		return s + r.Digits(r.Range(10, 30)).String()
	case 6:
		// leading zeros in the exponent
		s := "e" + []string{"", "+", "-"}[r.Intn(3)] + strings.Repeat("0", r.Range(1, 40))
		return s + strconv.Itoa(r.Range(0, 6200))
	default:
		e = r.Range(-6300, 6300)
	}
	c := "e"
	if r.Bool() {
		c = "E"
	}
	switch {
	case e < 0:
		return c + strconv.Itoa(e)
	case r.Bool():
		return c + "+" + strconv.Itoa(e)
	}
	return c + strconv.Itoa(e)
}

func sign(r *gen.RNG) string { return []string{"", "", "+", "-", "-"}[r.Intn(5)] }

func withUnderscores(r *gen.RNG, d string) string {
	if len(d) < 2 || len(d) > 200 {
		return d
	}
	var sb strings.Builder
	for i := 0; i < len(d); i++ {
		sb.WriteByte(d[i])
		if i < len(d)-1 && r.Chance(1, 6) {
			sb.WriteByte('_')
		}
	}
	return sb.String()
}

// buildLiteral returns a (mostly) well-formed literal.
func buildLiteral(r *gen.RNG, allowLong bool) string {
	switch r.Intn(12) {
	case 0: // special names in random case
		name := []string{"inf", "infinity", "nan"}[r.Intn(3)]
		b := []byte(name)
		for i := range b {
			if r.Bool() {
				b[i] -= 32
			}
		}
		s := string(b)
		if name != "nan" || r.Chance(1, 5) {
			s = sign(r) + s
		}
		return s
	case 1, 2: // tie / sticky patterns at the 34/35-digit boundary
		var p *big.Int
		switch r.Intn(5) {
		case 0:
			p = new(big.Int).Sub(ref.Cmax, big.NewInt(int64(r.Intn(3))))
		case 1:
			p = new(big.Int).Add(ref.CmaxP1d10, big.NewInt(int64(r.Range(-1, 1))))
		case 2:
			p = new(big.Int).Sub(ref.Pow10(34), ref.One)
		case 3:
			p = r.Digits(35)
			if p.Cmp(ref.Cmax) > 0 {
				p = r.Digits(34)
			}
		default:
			p = r.Digits(34)
		}
		g := strconv.Itoa(r.Pick(0, 4, 5, 5, 5, 9, r.Intn(10)))
		var tail string
		switch r.Intn(5) {
		case 0:
			tail = ""
		case 1:
			tail = strings.Repeat("0", r.Range(1, 60))
		case 2:
			tail = strings.Repeat("0", r.Range(0, 60)) + "1"
		case 3:
			tail = strings.Repeat("9", r.Range(1, 60))
		default:
			tail = digitsString(r, r.Range(1, 60))
		}
		if allowLong && r.Chance(1, 20) {
			tail = strings.Repeat("0", longCounts[r.Intn(len(longCounts))]) + []string{"", "1"}[r.Intn(2)]
		}
		m := p.String() + g + tail
		// place a decimal point somewhere
		if r.Bool() {
			pos := r.Intn(len(m) + 1)
			if len(m) > 300 {
				pos = r.Intn(60)
			}
			m = m[:pos] + "." + m[pos:]
			if pos == 0 && r.Bool() {
				m = "0" + m
			}
		}
		return sign(r) + m + expField(r)
	case 3: // magnitude at the thresholds with a long mantissa compensated by the exponent
		c := thresholdCoef(r).String()
		target := r.Pick(-6177, -6176, -6178, 6144, 6145, 6111, -6175, 6146) // decimal exponent of the leading digit
		z := r.Pick(0, 1, 10, 100, 1000, 7000)
		if allowLong && r.Chance(1, 6) {
			z = r.Pick(32768, 40000, 65536, 70000)
		}
		if r.Bool() {
			// "c000...0" e(target - z - len+1)
			e := target - z - (len(c) - 1)
			return sign(r) + c + strings.Repeat("0", z) + "e" + strconv.Itoa(e)
		}
		// "0.000...0c" e(target + z + 1)
		e := target + z + 1
		return sign(r) + "0." + strings.Repeat("0", z) + c + "e" + strconv.Itoa(e)
	case 4: // leading zeros
		z := r.Pick(1, 5, 40, 100)
		if allowLong && r.Chance(1, 4) {
			z = r.Pick(1000, 40000)
		}
		m := strings.Repeat("0", z) + digitsString(r, r.Range(0, 40))
		if r.Bool() {
			m += "." + digitsString(r, r.Range(0, 40))
		}
		if strings.Trim(m, "0.") == "" && !strings.ContainsAny(m, "0") {
			m = "0"
		}
		return sign(r) + m + expField(r)
	case 5: // with underscores
		ip := withUnderscores(r, digitsString(r, r.Range(1, 40)))
		s := sign(r) + ip
		if r.Bool() {
			s += "." + withUnderscores(r, digitsString(r, r.Range(0, 40)))
		}
		return s + expField(r)
	case 6: // zero literals with any exponent
		m := strings.Repeat("0", r.Range(1, 50))
		if r.Bool() {
			m += "." + strings.Repeat("0", r.Range(0, 50))
		}
		return sign(r) + m + expField(r)
	}
	ni := pickDigitCount(r, allowLong)
	nf := 0
	dot := r.Bool()
	if dot {
		nf = pickDigitCount(r, allowLong && ni < 1000)
	}
	if ni+nf == 0 {
		ni = 1
	}
	s := sign(r) + digitsString(r, ni)
	if dot {
		s += "." + digitsString(r, nf)
	}
	return s + expField(r)
}

const mutAlphabet = "0123456789+-._eEnNiIfFaAtTyY \x00\xff"

func mutate(r *gen.RNG, s string) string {
	if len(s) > 400 {
		// mutate near the ends only, to keep the cost bounded
		if r.Bool() {
			return mutate(r, s[:40]) + s[40:]
		}
		return s[:len(s)-40] + mutate(r, s[len(s)-40:])
	}
	b := []byte(s)
	for k := r.Range(1, 2); k > 0; k-- {
		switch r.Intn(4) {
		case 0: // insert
			pos := r.Intn(len(b) + 1)
			c := mutAlphabet[r.Intn(len(mutAlphabet))]
			b = append(b[:pos], append([]byte{c}, b[pos:]...)...)
		case 1: // delete
			if len(b) > 0 {
				pos := r.Intn(len(b))
				b = append(b[:pos], b[pos+1:]...)
			}
		case 2: // duplicate
			if len(b) > 0 {
				pos := r.Intn(len(b))
				b = append(b[:pos+1], b[pos:]...)
			}
		default: // replace
			if len(b) > 0 {
				b[r.Intn(len(b))] = mutAlphabet[r.Intn(len(mutAlphabet))]
			}
		}
	}
	return string(b)
}

var fixedInvalid = []string{"", "+", "-", ".", "+.", "-.", "e5", ".e5", "1e", "1e+", "1e-", "_1", "1_", "1__0", "1_.0", "1._0", "1_e5", "1e_5", "1e5_", "1e+_5",
	"1-", "1+1", "--1", "+-1", " 1", "1 ", "1\x00", "٣", "１", "0x10", "0b1", "infin", "infinit", "infinityy", "in", "na", "nan1", "nanx", "1.2.3", "1e2e3", "1e2.5", "1,5",
	"+inf ", "i nf", "١e5", "1e٣", "1_e", "_", "._", "_.", "e", "E", "+e", "-E1", "1e++1", "1e--1", "1e+-1", ".-1", "-.e1", "NaN(1)", "sNaN", "1d5", "1f", "1L"}

var fixedValid = []string{"0", "-0", "+0", "1", "1.", ".5", "-.5", "+.5e1", "1_000", "1_0.0_1", "1e5", "1E5", "1e+5", "1e-5", "1.e5", "0.e0", "00", "0_0", "Inf", "-inf", "+INFINITY", "NaN", "nan",
	"12345678901234567890e-6190", "1e6144", "9.999999999999999999999999999999999e6144", "1e-6176", "1e-6177", "5e-6177", "4.9e-6177", "9.9e-6177", "1e-6178", "12980742146337069071326240823050239e6111", "12980742146337069071326240823050240e6111"}

func runC05(c *Ctx) {
	for def := ref.Mode(0); def < ref.NumModes; def++ {
		c.Parallel("literals", def, func(sh *mon.Shard, r *gen.RNG) {
			j := &parseJudge{ctx: c, sh: sh}
			if sh.ID == 0 {
				for _, s := range fixedInvalid {
					j.judge(s, "")
				}
				for _, s := range fixedValid {
					j.judge(s, "")
				}
			}
			n := c.N(10000, 120000)
			longEvery := c.Pick(250, 40) // one long literal per this many cases
			for i := 0; i < n; i++ {
				allowLong := i%longEvery == 0
				s := buildLiteral(r, allowLong)
				switch i % 5 {
				case 3:
					s = mutate(r, s)
				case 4:
					if r.Bool() {
						s = mutate(r, mutate(r, s))
					}
				}
				j.judge(s, "")
			}
		})
	}
	c.Col.Res.Targets = append(c.Col.Res.Targets,
		mon.Target{Prefix: "class/", Total: 5, Min: 5},
		mon.Target{Prefix: "len/", Total: 8, Min: 8},
		mon.Target{Prefix: "expfield/", Total: 8, Min: 8},
		mon.Target{Prefix: "range/", Total: 3, Min: 3},
		mon.Target{Prefix: "pdt/", Total: 700, Min: c.Pick(900, 1300)},
	)
}

func replayC05(c *Ctx, sh *mon.Shard, cs *mon.Case) {
	j := &parseJudge{ctx: c, sh: sh}
	j.judge(cs.S[0], cs.Op)
}
