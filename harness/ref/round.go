package ref

import (
	"fmt"
	"math/big"
)

// Mode mirrors decimal128.RoundingMode numerically.
type Mode int

const (
	NearestEven Mode = iota
	NearestAway
	ToZero
	AwayFromZero
	ToNegInf
	ToPosInf
	NumModes = 6
)

var modeNames = [...]string{"ToNearestEven", "ToNearestAway", "ToZero", "AwayFromZero", "ToNegativeInf", "ToPositiveInf"}

func (m Mode) String() string {
	if m >= 0 && int(m) < len(modeNames) {
		return modeNames[m]
	}
	return fmt.Sprintf("Mode(%d)", int(m))
}

// Rounded is the outcome of rounding a positive real into the member set.
type Rounded struct {
	Neg  bool
	Inf  bool
	Coef *big.Int // member (one encoding); Coef==0 means (signed) zero
	Exp  int
	// classification of the decision, for evidence
	Exact  bool
	Guard  int  // first dropped digit at the finest admissible exponent
	Sticky bool // something non-zero beyond the guard digit
	Odd    bool // parity of the truncated coefficient
	Up     bool // magnitude was incremented
	Carry  bool // increment crossed Cmax (rescaled to the next exponent)
	EStar  int  // finest admissible exponent of the exact value
	Flush  bool // zero because |v| < 1e-6177 (flush rule)
}

func (r Rounded) IsZero() bool { return !r.Inf && r.Coef.Sign() == 0 }

func (r Rounded) String() string {
	s := "+"
	if r.Neg {
		s = "-"
	}
	if r.Inf {
		return s + "Inf"
	}
	return fmt.Sprintf("%s%se%d", s, r.Coef.String(), r.Exp)
}

// Exact is a positive real num/den located in the member grid: truncated
// coefficient Q at the finest admissible exponent E, and the classification of
// the fraction that lies beyond it.
type Exact struct {
	Neg      bool
	Q        *big.Int
	E        int
	IsExact  bool
	Guard    int
	Sticky   bool
	StickyHi bool // the part beyond the guard digit exceeds 1-1e-10 of a guard unit
	StickyLo bool // the part beyond the guard digit is below 1e-10 of a guard unit
	Huge     bool // beyond every finite member by orders of magnitude
}

// Prepare locates num/den (both > 0) in the member grid.
func Prepare(neg bool, num, den *big.Int) *Exact {
	if num.Sign() <= 0 || den.Sign() <= 0 {
		panic("Prepare: need positive num/den")
	}
	x := &Exact{Neg: neg}
	L := NumDigits(num) - NumDigits(den) // v in (10^(L-1), 10^(L+1))
	e0 := L - 36
	if e0 < MinExp {
		e0 = MinExp
	}
	if e0 > MaxExp+2 {
		x.Huge = true
		x.E = e0
		return x
	}
	n := num
	d := den
	if e0 < 0 {
		n = new(big.Int).Mul(num, Pow10(-e0))
	} else if e0 > 0 {
		d = new(big.Int).Mul(den, Pow10(e0))
	}
	q0, r0 := new(big.Int).QuoRem(n, d, new(big.Int))
	drop := 0
	if nd := NumDigits(q0); nd > 34 {
		drop = nd - 35
		if drop > 0 {
			t := new(big.Int).Quo(q0, Pow10(drop))
			if t.Cmp(Cmax) > 0 {
				drop++
			}
		} else if q0.Cmp(Cmax) > 0 {
			drop = 1
		}
	}
	x.E = e0 + drop
	x.Q = q0
	T := Zero
	if drop > 0 {
		x.Q, T = new(big.Int).QuoRem(q0, Pow10(drop), new(big.Int))
	}
	// fraction below Q at scale 10^E: (T*d + r0) / (10^drop * d)
	fn := new(big.Int).Mul(T, d)
	fn.Add(fn, r0)
	fd := d
	if drop > 0 {
		fd = new(big.Int).Mul(d, Pow10(drop))
	}
	if fn.Sign() == 0 {
		x.IsExact = true
		return x
	}
	fn.Mul(fn, Ten)
	g, rem := new(big.Int).QuoRem(fn, fd, new(big.Int))
	x.Guard = int(g.Int64())
	if rem.Sign() != 0 {
		x.Sticky = true
		t := new(big.Int).Mul(rem, Pow10(10))
		if t.Cmp(fd) < 0 {
			x.StickyLo = true
		} else {
			t.Sub(fd, rem)
			t.Mul(t, Pow10(10))
			if t.Cmp(fd) < 0 {
				x.StickyHi = true
			}
		}
	}
	return x
}

// Round selects the member of the format that mode picks for x.
func (x *Exact) Round(mode Mode, flush bool) Rounded {
	res := Rounded{Neg: x.Neg, EStar: x.E, Exact: x.IsExact, Guard: x.Guard, Sticky: x.Sticky}
	if x.Huge || x.E > MaxExp {
		res.Inf = true
		return res
	}
	res.Odd = x.Q.Bit(0) == 1
	if flush && x.E == MinExp && x.Q.Sign() == 0 && x.Guard == 0 {
		// v < 1e-6177
		res.Coef = new(big.Int)
		res.Exp = MinExp
		res.Flush = true
		return res
	}
	up := false
	if !x.IsExact {
		switch mode {
		case NearestEven:
			if x.Guard > 5 || (x.Guard == 5 && x.Sticky) {
				up = true
			} else if x.Guard == 5 && res.Odd {
				up = true
			}
		case NearestAway:
			up = x.Guard >= 5
		case ToZero:
		case AwayFromZero:
			up = true
		case ToNegInf:
			up = x.Neg
		case ToPosInf:
			up = !x.Neg
		default:
			panic("bad mode")
		}
	}
	c := new(big.Int).Set(x.Q)
	e := x.E
	if up {
		res.Up = true
		c.Add(c, One)
		if c.Cmp(Cmax) > 0 {
			c.Set(CmaxP1d10)
			e++
			res.Carry = true
			if e > MaxExp {
				res.Inf = true
				return res
			}
		}
	}
	res.Coef = c
	res.Exp = e
	return res
}

// RoundRat rounds the positive rational num/den (num > 0, den > 0), carrying
// sign neg, into the member set M = { c*10^e : 0<=c<=Cmax, -6176<=e<=6111 }
// by mode. If flush is set, magnitudes below 1e-6177 give zero in every mode.
func RoundRat(neg bool, num, den *big.Int, mode Mode, flush bool) Rounded {
	return Prepare(neg, num, den).Round(mode, flush)
}

// PrepareScaled locates n*10^k (n > 0) in the member grid.
func PrepareScaled(neg bool, n *big.Int, k int) *Exact {
	if k >= 0 {
		if k > 14000 {
			return &Exact{Neg: neg, Huge: true, E: k}
		}
		return Prepare(neg, new(big.Int).Mul(n, Pow10(k)), One)
	}
	if -k > 30000 && -k > NumDigits(n)+7000 {
		return &Exact{Neg: neg, Q: new(big.Int), E: MinExp, Guard: 0, Sticky: true, StickyLo: true}
	}
	return Prepare(neg, n, Pow10(-k))
}

// RoundScaled rounds n*10^k (n > 0).
func RoundScaled(neg bool, n *big.Int, k int, mode Mode, flush bool) Rounded {
	return PrepareScaled(neg, n, k).Round(mode, flush)
}

// RoundValue rounds a signed rational (zero handled by the caller).
func RoundValue(v *big.Rat, mode Mode, flush bool) Rounded {
	neg := v.Sign() < 0
	num := new(big.Int).Abs(v.Num())
	return RoundRat(neg, num, v.Denom(), mode, flush)
}

// Matches reports whether the decoded library result got denotes exactly the
// rounded reference (class, sign, value; cohort-insensitive).
func (r Rounded) Matches(got Num) bool {
	if got.Class == NaN {
		return false
	}
	if r.Inf {
		return got.Class == Inf && got.Neg == r.Neg
	}
	if got.Class != Finite || got.Neg != r.Neg {
		return false
	}
	return SameValue(r.Coef, r.Exp, got.Coef, got.Exp)
}

// ValueEquals reports whether finite got denotes exactly v (sign of zero not
// judged).
func ValueEquals(got Num, v *big.Rat) bool {
	if got.Class != Finite {
		return false
	}
	return got.Rat().Cmp(v) == 0
}
