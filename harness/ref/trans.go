package ref

import (
	"math/big"
	"sync"
)

// Transcendental references in big.Float. Every function returns a value
// whose relative error is below 2^-900 (working precision TransPrec bits;
// series are truncated below 2^-(TransPrec+8) relative; at most a few thousand
// operations each contributing 2^-TransPrec). The tolerances judged with them
// are never tighter than 1e-40 relative.

const TransPrec = 1100

func newF() *big.Float { return new(big.Float).SetPrec(TransPrec) }

func fInt(i int64) *big.Float { return newF().SetInt64(i) }

var (
	constOnce sync.Once
	ln2c      *big.Float
	ln10c     *big.Float
)

func initConsts() {
	constOnce.Do(func() {
		// ln2 = 2*atanh(1/3)
		third := newF().Quo(fInt(1), fInt(3))
		ln2c = newF().Mul(fInt(2), atanhSeries(third))
		ln10c = logPos(fInt(10))
	})
}

func Ln2() *big.Float  { initConsts(); return ln2c }
func Ln10() *big.Float { initConsts(); return ln10c }

// small reports whether |t| is below 2^-(TransPrec+8) relative to |ref|.
func negligible(t, sum *big.Float) bool {
	if t.Sign() == 0 {
		return true
	}
	if sum.Sign() == 0 {
		return false
	}
	return t.MantExp(nil)-sum.MantExp(nil) < -(TransPrec + 8)
}

// atanhSeries computes atanh(z) = z + z^3/3 + z^5/5 + ... for |z| <= 1/3.
func atanhSeries(z *big.Float) *big.Float {
	sum := newF().Set(z)
	if z.Sign() == 0 {
		return sum
	}
	z2 := newF().Mul(z, z)
	pow := newF().Set(z)
	term := newF()
	for k := int64(3); k < 100000; k += 2 {
		pow.Mul(pow, z2)
		term.Quo(pow, fInt(k))
		sum.Add(sum, term)
		if negligible(term, sum) {
			break
		}
	}
	return sum
}

// expm1Series computes e^t - 1 by its Taylor series (|t| <= 1/2).
func expm1Series(t *big.Float) *big.Float {
	sum := newF().Set(t)
	if t.Sign() == 0 {
		return sum
	}
	term := newF().Set(t)
	for k := int64(2); k < 100000; k++ {
		term.Mul(term, t)
		term.Quo(term, fInt(k))
		sum.Add(sum, term)
		if negligible(term, sum) {
			break
		}
	}
	return sum
}

// Exp returns e^x. The caller keeps |x| below about 1e6.
func Exp(x *big.Float) *big.Float {
	initConsts()
	if x.Sign() == 0 {
		return fInt(1)
	}
	// n = round(x/ln2)
	q := newF().Quo(x, ln2c)
	half := big.NewFloat(0.5)
	if q.Sign() >= 0 {
		q.Add(q, half)
	} else {
		q.Sub(q, half)
	}
	ni, _ := q.Int64() // truncation toward zero of x/ln2 +/- 0.5 == rounding
	r := newF().Mul(fInt(ni), ln2c)
	r.Sub(x, r)
	const sq = 16
	t := newF().SetMantExp(r, -sq)
	a := expm1Series(t)
	tmp := newF()
	for i := 0; i < sq; i++ {
		// a <- 2a + a^2
		tmp.Mul(a, a)
		a.Add(a, a)
		a.Add(a, tmp)
	}
	a.Add(a, fInt(1))
	return a.SetMantExp(a, int(ni))
}

// Expm1 returns e^x - 1 with full relative accuracy.
func Expm1(x *big.Float) *big.Float {
	if x.Sign() == 0 {
		return newF()
	}
	if absLess(x, 0.25) {
		return expm1Series(x)
	}
	e := Exp(x)
	return e.Sub(e, fInt(1))
}

func absLess(x *big.Float, b float64) bool {
	a := newF().Abs(x)
	return a.Cmp(big.NewFloat(b)) < 0
}

// logPos returns ln(x) for x > 0 (not tuned for x very close to 1; Log
// dispatches those to Log1p).
func logPos(x *big.Float) *big.Float {
	m := newF()
	e := x.MantExp(m) // x = m * 2^e, m in [0.5, 1)
	// bring m into [1/sqrt2, sqrt2)
	if m.Cmp(big.NewFloat(0.70710678118654752440)) < 0 {
		m.SetMantExp(m, 1)
		e--
	}
	// six square roots
	const roots = 6
	s := newF().Set(m)
	for i := 0; i < roots; i++ {
		s.Sqrt(s)
	}
	num := newF().Sub(s, fInt(1))
	den := newF().Add(s, fInt(1))
	z := num.Quo(num, den)
	l := atanhSeries(z)
	l.SetMantExp(l, 1+roots) // 2 * 64 * atanh(z)
	if e != 0 {
		var l2 *big.Float
		if ln2c != nil {
			l2 = ln2c
		} else {
			third := newF().Quo(fInt(1), fInt(3))
			l2 = newF().Mul(fInt(2), atanhSeries(third))
		}
		l.Add(l, newF().Mul(fInt(int64(e)), l2))
	}
	return l
}

// Log1p returns ln(1+x) for x > -1 with full relative accuracy.
func Log1p(x *big.Float) *big.Float {
	if x.Sign() == 0 {
		return newF()
	}
	if absLess(x, 0.25) {
		// 2*atanh(x/(2+x))
		den := newF().Add(x, fInt(2))
		z := newF().Quo(x, den)
		l := atanhSeries(z)
		return l.SetMantExp(l, 1)
	}
	initConsts()
	return logPos(newF().Add(x, fInt(1)))
}

// Log returns ln(x) for x > 0 with full relative accuracy (also next to 1).
func Log(x *big.Float) *big.Float {
	initConsts()
	d := newF().Sub(x, fInt(1)) // exact: x has far fewer than TransPrec bits of span around 1
	if absLess(d, 0.25) {
		return Log1p(d)
	}
	return logPos(x)
}

// FloatOf converts a finite Num to a big.Float (relative error 2^-TransPrec).
func FloatOf(n Num) *big.Float {
	f := newF().SetInt(n.Coef)
	if n.Exp > 0 {
		f.Mul(f, newF().SetInt(Pow10(n.Exp)))
	} else if n.Exp < 0 {
		f.Quo(f, newF().SetInt(Pow10(-n.Exp)))
	}
	if n.Neg {
		f.Neg(f)
	}
	return f
}
