package ref

import (
	"math/big"
	"strings"
)

// LitClass is the harness's own reading of the documented Parse syntax.
type LitClass int

const (
	LitReject   LitClass = iota // every reading of the documentation rejects it
	LitNumber                   // [+-] G | G. | G.G | .G  with optional [eE][+-]D+ ; '_' only between mantissa digits
	LitInf                      // [+-](inf|infinity), any case
	LitNaN                      // nan, any case, unsigned
	LitDontCare                 // documentation does not decide ('_' between exponent digits, signed nan)
)

func (c LitClass) String() string {
	return [...]string{"reject", "number", "inf", "nan", "dontcare"}[c]
}

// Literal is a classified input string.
type Literal struct {
	Class LitClass
	Neg   bool
	// for LitNumber (and numeral-shaped LitDontCare):
	Mant    *big.Int // mantissa digits as an integer (underscores removed)
	Frac    int      // number of digits after the decimal point
	ExpNeg  bool
	ExpAbs  *big.Int // exponent field magnitude (0 if absent)
	NDigits int      // mantissa digits written (incl. leading zeros)
	// for LitDontCare on a nan:
	SignedNaN bool
}

func isDigit(c byte) bool { return c >= '0' && c <= '9' }

// scanGroup reads D+(_D+)* starting at i; returns the digits (without
// separators), the new index, and ok=false if the group is malformed (empty
// is reported as n==0, ok=true with i unchanged). sepUsed reports whether an
// underscore occurred.
func scanGroup(s string, i int, sb *strings.Builder) (n int, j int, ok bool, sepUsed bool) {
	j = i
	for j < len(s) {
		c := s[j]
		if isDigit(c) {
			sb.WriteByte(c)
			n++
			j++
			continue
		}
		if c == '_' {
			// must be strictly between two digits of this group
			if n == 0 || j+1 >= len(s) || !isDigit(s[j+1]) || !isDigit(s[j-1]) {
				return n, j, false, true
			}
			sepUsed = true
			j++
			continue
		}
		break
	}
	return n, j, true, sepUsed
}

// Classify reads s by the documented grammar.
func Classify(s string) Literal {
	var lit Literal
	if len(s) == 0 {
		return lit
	}
	i := 0
	signed := false
	if s[0] == '+' || s[0] == '-' {
		lit.Neg = s[0] == '-'
		signed = true
		i = 1
	}
	rest := s[i:]
	if len(rest) == 0 {
		return lit
	}
	switch strings.ToLower(rest) {
	case "inf", "infinity":
		lit.Class = LitInf
		return lit
	case "nan":
		if signed {
			lit.Class = LitDontCare
			lit.SignedNaN = true
		} else {
			lit.Class = LitNaN
		}
		return lit
	}
	var sb strings.Builder
	nInt, j, ok, _ := scanGroup(s, i, &sb)
	if !ok {
		return lit
	}
	nFrac := 0
	if j < len(s) && s[j] == '.' {
		j++
		var ok2 bool
		nFrac, j, ok2, _ = scanGroup(s, j, &sb)
		if !ok2 {
			return lit
		}
	}
	if nInt+nFrac == 0 {
		return lit
	}
	lit.ExpAbs = new(big.Int)
	dontcare := false
	if j < len(s) && (s[j] == 'e' || s[j] == 'E') {
		j++
		if j < len(s) && (s[j] == '+' || s[j] == '-') {
			lit.ExpNeg = s[j] == '-'
			j++
		}
		var eb strings.Builder
		nE, j2, ok3, sep := scanGroup(s, j, &eb)
		if !ok3 || nE == 0 {
			return lit
		}
		j = j2
		if sep {
			dontcare = true
		}
		lit.ExpAbs.SetString(eb.String(), 10)
	}
	if j != len(s) {
		return lit
	}
	lit.Mant, _ = new(big.Int).SetString(sb.String(), 10)
	lit.Frac = nFrac
	lit.NDigits = nInt + nFrac
	lit.Class = LitNumber
	if dontcare {
		lit.Class = LitDontCare
	}
	return lit
}

// Scale returns k such that the literal denotes Mant * 10^k, clamped to
// +/-1e9 (far outside anything representable, so clamping cannot change a
// verdict; the mantissa has at most a few hundred thousand digits).
func (l *Literal) Scale() int {
	const lim = 1_000_000_000
	var e int64
	if l.ExpAbs.IsInt64() && l.ExpAbs.Int64() <= lim {
		e = l.ExpAbs.Int64()
	} else {
		e = lim
	}
	if l.ExpNeg {
		e = -e
	}
	e -= int64(l.Frac)
	if e > lim {
		e = lim
	}
	if e < -lim {
		e = -lim
	}
	return int(e)
}

// ReadNumeral reads a produced numeral (output of String/Format/MarshalJSON)
// of the shape [+-]?digits[.digits][(e|E)[+-]digits] exactly, with no
// tolerance for anything else. It returns sign character presence, the
// integer formed by all mantissa digits, the number of fraction digits, the
// exponent, and the raw integer / fraction digit strings.
type Numeral struct {
	SignChar byte // 0, '+' or '-'
	Int      string
	Frac     string
	HasDot   bool
	HasExp   bool
	ExpChar  byte
	ExpSign  byte
	ExpDig   string
	Exp      int
}

func ReadNumeral(s string) (Numeral, bool) {
	var n Numeral
	i := 0
	if i < len(s) && (s[i] == '+' || s[i] == '-') {
		n.SignChar = s[i]
		i++
	}
	st := i
	for i < len(s) && isDigit(s[i]) {
		i++
	}
	n.Int = s[st:i]
	if i < len(s) && s[i] == '.' {
		n.HasDot = true
		i++
		st = i
		for i < len(s) && isDigit(s[i]) {
			i++
		}
		n.Frac = s[st:i]
	}
	if len(n.Int)+len(n.Frac) == 0 {
		return n, false
	}
	if i < len(s) && (s[i] == 'e' || s[i] == 'E') {
		n.HasExp = true
		n.ExpChar = s[i]
		i++
		if i < len(s) && (s[i] == '+' || s[i] == '-') {
			n.ExpSign = s[i]
			i++
		}
		st = i
		for i < len(s) && isDigit(s[i]) {
			i++
		}
		n.ExpDig = s[st:i]
		if len(n.ExpDig) == 0 || len(n.ExpDig) > 9 {
			return n, false
		}
		for _, c := range n.ExpDig {
			n.Exp = n.Exp*10 + int(c-'0')
		}
		if n.ExpSign == '-' {
			n.Exp = -n.Exp
		}
	}
	if i != len(s) {
		return n, false
	}
	return n, true
}

// Value returns the numeral as (mantissa integer, scale k): mant * 10^k.
func (n *Numeral) Value() (*big.Int, int) {
	m, ok := new(big.Int).SetString(n.Int+n.Frac, 10)
	if !ok {
		m = new(big.Int)
	}
	return m, n.Exp - len(n.Frac)
}
