package ref

import (
	"math"
	"math/big"
	"testing"
)

func TestTransAgainstFloat64(t *testing.T) {
	xs := []float64{1e-300, 1e-20, 0.001, 0.24, 0.26, 0.5, 1, 2.5, 10, 100, 700, -1e-20, -0.001, -0.3, -1, -20, -700}
	for _, x := range xs {
		bx := new(big.Float).SetPrec(TransPrec).SetFloat64(x)
		chk := func(name string, got *big.Float, want float64) {
			g, _ := got.Float64()
			if math.Abs(g-want) > 4e-16*math.Abs(want) {
				t.Errorf("%s(%v) = %v want %v", name, x, g, want)
			}
		}
		chk("exp", Exp(bx), math.Exp(x))
		chk("expm1", Expm1(bx), math.Expm1(x))
		if x > -1 {
			chk("log1p", Log1p(bx), math.Log1p(x))
		}
		if x > 0 {
			chk("log", Log(bx), math.Log(x))
		}
	}
	// identities at high precision: log(exp(x)) == x, exp(log1p(x)) - 1 == x
	for _, x := range []float64{0.1, 3.7, -5.2, 1234.5, -9000.25} {
		bx := new(big.Float).SetPrec(TransPrec).SetFloat64(x)
		back := Log(Exp(bx))
		d := new(big.Float).SetPrec(TransPrec).Sub(back, bx)
		if d.Sign() != 0 && d.MantExp(nil)-bx.MantExp(nil) > -1000 {
			t.Errorf("log(exp(%v)) off: diff exp %d", x, d.MantExp(nil)-bx.MantExp(nil))
		}
	}
	l10, _ := Ln10().Float64()
	if l10 != math.Ln10 {
		t.Errorf("ln10 %v", l10)
	}
}
