// Package ref is the harness's independent reference model of the decimal128
// format as implemented by github.com/woodsbury/decimal128: bit-level BID
// decoding/encoding, the member set of the format, and exact rounding into it.
// Nothing here calls the library under test.
package ref

import (
	"fmt"
	"math/big"
	"sync"
)

const (
	Bias   = 6176
	MinExp = -6176
	MaxExp = 6111
)

// Cmax = 5*2^111 - 1, the largest coefficient the two BID forms can hold.
var (
	Cmax      = mustInt("12980742146337069071326240823050239")
	CmaxP1    = mustInt("12980742146337069071326240823050240")
	CmaxP1d10 = mustInt("1298074214633706907132624082305024")
	Ten       = big.NewInt(10)
	One       = big.NewInt(1)
	Two       = big.NewInt(2)
	Zero      = big.NewInt(0)
)

func mustInt(s string) *big.Int {
	z, ok := new(big.Int).SetString(s, 10)
	if !ok {
		panic(s)
	}
	return z
}

// Bits is the raw 128-bit pattern of a Decimal.
type Bits struct{ Hi, Lo uint64 }

func (b Bits) Hex() string { return fmt.Sprintf("%016x%016x", b.Hi, b.Lo) }

func ParseHex(s string) (Bits, error) {
	var b Bits
	if len(s) != 32 {
		return b, fmt.Errorf("bad bits %q", s)
	}
	_, err := fmt.Sscanf(s, "%016x%016x", &b.Hi, &b.Lo)
	return b, err
}

type Class uint8

const (
	Finite Class = iota
	Inf
	NaN
)

func (c Class) String() string { return [...]string{"finite", "inf", "nan"}[c] }

// Num is the decoded meaning of a bit pattern: (-1)^Neg * Coef * 10^Exp, or a
// special value.
type Num struct {
	Class Class
	Neg   bool
	Coef  *big.Int // finite only, 0..Cmax
	Exp   int      // finite only, unbiased
	Large bool     // finite only: encoded in the 2-bit-steering form
	Bits  Bits
}

// Decode reads a bit pattern as IEEE 754-2008 decimal128 BID (written from the
// standard's field layout, not from the library's decompose).
func Decode(b Bits) Num {
	n := Num{Bits: b}
	n.Neg = b.Hi>>63 == 1
	comb := (b.Hi >> 58) & 0x1f // 5 bits after the sign
	switch {
	case comb == 0x1f:
		n.Class = NaN
		return n
	case comb == 0x1e:
		n.Class = Inf
		return n
	}
	n.Class = Finite
	var top uint64 // coefficient bits above the low 64
	if (b.Hi>>61)&3 == 3 {
		// steering bits 11: exponent is the next 14 bits, coefficient is
		// 100b followed by 111 bits.
		n.Large = true
		n.Exp = int((b.Hi>>47)&0x3fff) - Bias
		top = (b.Hi & ((1 << 47) - 1)) | (1 << 49)
	} else {
		n.Exp = int((b.Hi>>49)&0x3fff) - Bias
		top = b.Hi & ((1 << 49) - 1)
	}
	n.Coef = new(big.Int).SetUint64(top)
	n.Coef.Lsh(n.Coef, 64)
	n.Coef.Or(n.Coef, new(big.Int).SetUint64(b.Lo))
	return n
}

// Encode builds the bit pattern for (-1)^neg * coef * 10^exp. coef must be in
// 0..Cmax and exp in MinExp..MaxExp. Coefficients below 2^113 use the small
// form, larger ones the steering form.
func Encode(neg bool, coef *big.Int, exp int) Bits {
	if coef.Sign() < 0 || coef.Cmp(Cmax) > 0 || exp < MinExp || exp > MaxExp {
		panic(fmt.Sprintf("ref.Encode: out of range %v e%d", coef, exp))
	}
	var b Bits
	lo := new(big.Int).And(coef, new(big.Int).SetUint64(^uint64(0)))
	b.Lo = lo.Uint64()
	top := new(big.Int).Rsh(coef, 64).Uint64()
	be := uint64(exp + Bias)
	if top >= 1<<49 {
		b.Hi = 3<<61 | be<<47 | (top & ((1 << 47) - 1))
	} else {
		b.Hi = be<<49 | top
	}
	if neg {
		b.Hi |= 1 << 63
	}
	return b
}

func EncodeInf(neg bool) Bits {
	if neg {
		return Bits{0xf800_0000_0000_0000, 0}
	}
	return Bits{0x7800_0000_0000_0000, 0}
}

// IsZero reports whether n is a finite zero.
func (n Num) IsZero() bool { return n.Class == Finite && n.Coef.Sign() == 0 }

// Rat returns the exact (signed) value of a finite n.
func (n Num) Rat() *big.Rat {
	r := new(big.Rat)
	if n.Class != Finite {
		panic("Rat of special")
	}
	c := new(big.Int).Set(n.Coef)
	if n.Neg {
		c.Neg(c)
	}
	if n.Exp >= 0 {
		c.Mul(c, Pow10(n.Exp))
		return r.SetInt(c)
	}
	return r.SetFrac(c, Pow10(-n.Exp))
}

// String renders n for reports.
func (n Num) String() string {
	switch n.Class {
	case NaN:
		return fmt.Sprintf("NaN[%s]", n.Bits.Hex())
	case Inf:
		if n.Neg {
			return "-Inf"
		}
		return "+Inf"
	}
	s := ""
	if n.Neg {
		s = "-"
	}
	return fmt.Sprintf("%s%se%d", s, n.Coef.String(), n.Exp)
}

const pow10Small = 700
const pow10Big = 12500

var pow10cache [pow10Small]*big.Int
var pow10big []*big.Int
var pow10once sync.Once

func init() {
	pow10cache[0] = big.NewInt(1)
	for i := 1; i < pow10Small; i++ {
		pow10cache[i] = new(big.Int).Mul(pow10cache[i-1], Ten)
	}
}

// Pow10 returns 10^n (n >= 0). Values are shared: callers must not modify.
// Powers up to 12500 are tabulated (the large part lazily, once); larger ones
// are computed per call.
func Pow10(n int) *big.Int {
	if n < 0 {
		panic("Pow10 negative")
	}
	if n < pow10Small {
		return pow10cache[n]
	}
	if n < pow10Big {
		pow10once.Do(func() {
			t := make([]*big.Int, pow10Big)
			copy(t, pow10cache[:])
			for i := pow10Small; i < pow10Big; i++ {
				t[i] = new(big.Int).Mul(t[i-1], Ten)
			}
			pow10big = t
		})
		return pow10big[n]
	}
	return new(big.Int).Exp(Ten, big.NewInt(int64(n)), nil)
}

// NumDigits returns the number of decimal digits of x (> 0); 0 for 0.
func NumDigits(x *big.Int) int {
	if x.Sign() == 0 {
		return 0
	}
	// estimate from bit length, then correct
	bl := x.BitLen()
	d := int(float64(bl-1)*0.30102999566398120) + 1 // floor((bl-1)*log10 2)+1 <= digits
	ax := x
	if x.Sign() < 0 {
		ax = new(big.Int).Abs(x)
	}
	for ax.Cmp(Pow10(d)) >= 0 {
		d++
	}
	for d > 1 && ax.Cmp(Pow10(d-1)) < 0 {
		d--
	}
	return d
}

// SameValue reports whether c1*10^e1 == c2*10^e2 (non-negative coefficients).
func SameValue(c1 *big.Int, e1 int, c2 *big.Int, e2 int) bool {
	if c1.Sign() == 0 || c2.Sign() == 0 {
		return c1.Sign() == c2.Sign()
	}
	if e1 == e2 {
		return c1.Cmp(c2) == 0
	}
	if e1 > e2 {
		c1, c2, e1, e2 = c2, c1, e2, e1
	}
	// e1 < e2: c1 == c2*10^(e2-e1)
	d := e2 - e1
	if d > 40+NumDigits(c1) {
		return false
	}
	t := new(big.Int).Mul(c2, Pow10(d))
	return t.Cmp(c1) == 0
}
