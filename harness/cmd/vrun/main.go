// Command vrun is the check runner: it rebuilds the monitor binary from
// /repo's current working tree (tag verif), runs it as a child process under a
// watchdog, merges what the monitors observed, matches violations against the
// committed known findings, writes /verif/evidence/<id>.json and prints the
// VIOLATION / KNOWN-FINDING / INCONCLUSIVE lines.
//
// Exit codes: 0 held (KNOWN-FINDING lines allowed), 1 violation, 2 build
// failed, 3 inconclusive, 5 internal error of the harness.
package main

import (
	"bytes"
	"encoding/json"
	"fmt"
	"os"
	"os/exec"
	"path/filepath"
	"sort"
	"strconv"
	"strings"
	"syscall"
	"time"

	"verifharness/mon"
)

const pkgPath = "github.com/woodsbury/decimal128"

type flavor struct {
	Name  string
	Flags []string
	Env   []string
	Cover bool
}

var flavors = map[string]flavor{
	"cover":    {Name: "cover", Flags: []string{"-cover", "-coverpkg=" + pkgPath}, Cover: true},
	"plain":    {Name: "plain"},
	"race":     {Name: "race", Flags: []string{"-race"}},
	"asan":     {Name: "asan", Flags: []string{"-asan"}, Env: []string{"CGO_ENABLED=1"}},
	"checkptr": {Name: "checkptr", Flags: []string{"-gcflags=all=-d=checkptr"}},
}

func verifDir() string {
	if d := os.Getenv("VERIF_DIR"); d != "" {
		return d
	}
	return "/verif"
}

// evidenceDir is where evidence, logs and replay files go (overridable so that
// self-tests against scratch trees do not overwrite the real evidence).
func evidenceDir() string {
	if d := os.Getenv("VERIF_EVIDENCE_DIR"); d != "" {
		return d
	}
	return filepath.Join(verifDir(), "evidence")
}

func repoDir() string {
	if d := os.Getenv("VERIF_REPO"); d != "" {
		return d
	}
	return "/repo"
}

func goEnv(extra ...string) []string {
	env := os.Environ()
	env = append(env, "GOFLAGS=-mod=mod", "GOPROXY=off", "GOSUMDB=off", "GOTOOLCHAIN=local")
	env = append(env, extra...)
	return env
}

func main() {
	if len(os.Args) < 3 {
		fmt.Fprintln(os.Stderr, "usage: vrun <property> quick|thorough | vrun replay <file>")
		os.Exit(5)
	}
	if os.Args[1] == "replay" {
		os.Exit(doReplay(os.Args[2]))
	}
	prop, tier := os.Args[1], os.Args[2]
	if t := os.Getenv("VERIF_TIER"); t == "quick" || t == "thorough" {
		tier = t
	}
	os.Exit(doCheck(prop, tier))
}

// build compiles the monitor binary for a flavour. The harness module's
// replace directive points at /repo (or VERIF_REPO for self-tests, through a
// scratch modfile).
func build(fl flavor, tag string) (string, []byte, error) {
	hd := filepath.Join(verifDir(), "harness")
	bin := filepath.Join(hd, "bin")
	os.MkdirAll(bin, 0o755)
	out := filepath.Join(bin, fmt.Sprintf("props-%s-%s-%d.test", tag, fl.Name, os.Getpid()))
	args := []string{"test", "-c", "-tags", "verif", "-vet=off"}
	args = append(args, fl.Flags...)
	if rd := repoDir(); rd != "/repo" {
		// scratch modfile pointing the replace at another tree (self-tests only)
		mf := filepath.Join(bin, fmt.Sprintf("go-%d.mod", os.Getpid()))
		src, err := os.ReadFile(filepath.Join(hd, "go.mod"))
		if err != nil {
			return "", nil, err
		}
		s := strings.Replace(string(src), "=> /repo", "=> "+rd, 1)
		if err := os.WriteFile(mf, []byte(s), 0o644); err != nil {
			return "", nil, err
		}
		os.WriteFile(strings.TrimSuffix(mf, ".mod")+".sum", nil, 0o644)
		defer os.Remove(mf)
		defer os.Remove(strings.TrimSuffix(mf, ".mod") + ".sum")
		args = append(args, "-modfile="+mf)
	}
	args = append(args, "-o", out, "./props")
	cmd := exec.Command("go", args...)
	cmd.Dir = hd
	cmd.Env = goEnv(fl.Env...)
	b, err := cmd.CombinedOutput()
	return out, b, err
}

type childOutcome struct {
	Res      *mon.Result
	Log      string
	Profile  string
	TimedOut bool
	ExitErr  error
	Wall     float64
}

func runChild(binPath string, fl flavor, prop, tier string, seed uint64, extraEnv []string, limit time.Duration) childOutcome {
	logs := filepath.Join(evidenceDir(), "logs")
	os.MkdirAll(logs, 0o755)
	base := filepath.Join(logs, fmt.Sprintf("%s-%s-%s", prop, tier, fl.Name))
	resPath := base + ".result.json"
	logPath := base + ".log"
	profPath := base + ".cover"
	os.Remove(resPath)
	os.Remove(profPath)
	args := []string{"-test.run", "^TestVerif$", "-test.timeout", "0"}
	if fl.Cover {
		args = append(args, "-test.coverprofile", profPath)
	}
	cmd := exec.Command(binPath, args...)
	cmd.Dir = filepath.Join(verifDir(), "harness")
	lf, _ := os.Create(logPath)
	defer lf.Close()
	cmd.Stdout = lf
	cmd.Stderr = lf
	env := append(os.Environ(),
		"VERIF_PROP="+prop, "VERIF_TIER="+tier, "VERIF_SEED="+strconv.FormatUint(seed, 10),
		"VERIF_OUT="+resPath, "VERIF_BUILD="+fl.Name,
		"VERIF_KNOWN="+filepath.Join(verifDir(), "known_findings.json"),
		"VERIF_CASEFILE="+base+".lastcase",
		"GOTRACEBACK=all")
	env = append(env, extraEnv...)
	cmd.Env = env
	start := time.Now()
	oc := childOutcome{Log: logPath, Profile: profPath}
	if err := cmd.Start(); err != nil {
		oc.ExitErr = err
		return oc
	}
	done := make(chan error, 1)
	go func() { done <- cmd.Wait() }()
	select {
	case err := <-done:
		oc.ExitErr = err
	case <-time.After(limit):
		oc.TimedOut = true
		cmd.Process.Signal(syscall.SIGQUIT)
		select {
		case <-done:
		case <-time.After(20 * time.Second):
			cmd.Process.Kill()
			<-done
		}
	}
	oc.Wall = time.Since(start).Seconds()
	if b, err := os.ReadFile(resPath); err == nil {
		var r mon.Result
		if json.Unmarshal(b, &r) == nil {
			oc.Res = &r
		}
	}
	return oc
}

func tail(path string, n int) string {
	b, err := os.ReadFile(path)
	if err != nil {
		return ""
	}
	lines := strings.Split(string(b), "\n")
	if len(lines) > n {
		lines = lines[len(lines)-n:]
	}
	return strings.Join(lines, "\n")
}

// Evidence mirrors /root/.vp/EVIDENCE.schema.json.
type Evidence struct {
	PropertyID  string         `json:"property_id"`
	Tier        string         `json:"tier"`
	Seed        uint64         `json:"seed"`
	Level       string         `json:"level"`
	Coverage    map[string]any `json:"coverage"`
	Assumptions []string       `json:"assumptions"`
	WallS       float64        `json:"wall_s"`
	Violations  int            `json:"violations"`
	Verdict     string         `json:"verdict"`
	Known       []string       `json:"known_findings_observed,omitempty"`
	Incon       []string       `json:"inconclusive,omitempty"`
	Builds      []string       `json:"builds"`
}

func propFlavors(prop string) []string {
	if prop == "C20" {
		return []string{"plain", "cover", "race", "asan", "checkptr"}
	}
	return []string{"plain", "cover"}
}

// thoroughScale multiplies the thorough tier's per-shard case counts (which are
// already 10x quick) so that every thorough run explores for roughly 8-15
// minutes on 16 cores; VERIF_SCALE overrides it.
var thoroughScale = map[string]float64{
	"C01": 3, "C02": 3, "C03": 2, "C04": 6, "C05": 3, "C06": 3, "C07": 20, "C08": 3, "C09": 5, "C10": 5,
	"C11": 5, "C12": 5, "C13": 8, "C14": 12, "C15": 20, "C16": 5, "C17": 4, "C18": 10, "C19": 10, "C20": 1,
}

func scaleEnv(prop, tier string) float64 {
	if s := os.Getenv("VERIF_SCALE"); s != "" {
		if f, err := strconv.ParseFloat(s, 64); err == nil && f > 0 {
			return f
		}
	}
	if tier == "thorough" {
		if f, ok := thoroughScale[prop]; ok {
			return f
		}
	}
	return 1
}

func limitFor(tier string) time.Duration {
	if s := os.Getenv("VERIF_WATCHDOG_S"); s != "" {
		if n, err := strconv.Atoi(s); err == nil {
			return time.Duration(n) * time.Second
		}
	}
	if tier == "thorough" {
		return 6 * time.Hour
	}
	return 45 * time.Minute
}

func doCheck(prop, tier string) int {
	start := time.Now()
	seed, _ := strconv.ParseUint(os.Getenv("VERIF_SEED"), 10, 64)
	evPath := filepath.Join(evidenceDir(), prop+".json")
	os.MkdirAll(filepath.Dir(evPath), 0o755)

	var merged *mon.Result
	var incon []string
	var builds []string
	var internal []string
	crashViol := []mon.Violation{}
	codeCov := map[string]any{}
	sanReports := map[string]int{}

	for _, fn := range propFlavors(prop) {
		fl := flavors[fn]
		binPath, out, err := build(fl, prop)
		if err != nil {
			if fn != "plain" {
				// a sanitizer build that is unavailable is inconclusive, not a verdict
				incon = append(incon, fmt.Sprintf("build flavour %s failed: %s", fn, firstLines(string(out), 3)))
				continue
			}
			fmt.Printf("BUILD-FAILED property=%s flavour=%s\n%s\n", prop, fn, out)
			return 2
		}
		extra := []string{fmt.Sprintf("VERIF_SCALE=%g", scaleEnv(prop, tier))}
		if fl.Cover {
			// The coverage-instrumented build shares counters between all worker
			// goroutines (heavy cache-line contention), so reach is measured on a
			// 1/10 prefix of the same case streams; verdicts of that run count too.
			extra = []string{fmt.Sprintf("VERIF_SCALE=%g", scaleEnv(prop, tier)*0.1)}
		}
		oc := runChild(binPath, fl, prop, tier, seed, extra, limitFor(tier))
		os.Remove(binPath)
		builds = append(builds, fmt.Sprintf("%s: %.1fs", fn, oc.Wall))
		if fn != "cover" && fn != "plain" {
			n, kinds := countSanitizerReports(oc.Log)
			sanReports[fn] = n
			if n > 0 {
				v := mon.Violation{Case: mon.Case{Prop: prop, Op: "sanitizer:" + fn}, Kind: "sanitizer-report", Want: "0 reports", Got: fmt.Sprintf("%d report(s): %s", n, strings.Join(kinds, "; ")), Detail: "log: " + oc.Log + lastCases(oc.Log)}
				crashViol = append(crashViol, v)
			}
		}
		if oc.TimedOut {
			incon = append(incon, fmt.Sprintf("watchdog fired after %.0fs in flavour %s (log %s)", oc.Wall, fn, oc.Log))
			continue
		}
		if oc.Res != nil && oc.Res.Stalled != "" {
			// no verdict for what was not run - but violations recorded before the stall are kept and decide
			incon = append(incon, fmt.Sprintf("flavour %s: %s (log %s)", fn, oc.Res.Stalled, oc.Log))
			if merged == nil {
				merged = oc.Res
			} else {
				mergeResults(merged, oc.Res, fn)
			}
			continue
		}
		if oc.Res == nil || !oc.Res.Completed {
			t := tail(oc.Log, 40)
			if oc.Res != nil && oc.Res.Internal != "" {
				internal = append(internal, oc.Res.Internal)
			} else if sanReports[fn] > 0 {
				// already recorded as a sanitizer report
			} else {
				where := crashOrigin(oc.Log)
				msg := fmt.Sprintf("child process of flavour %s ended without a result (log %s): %s", fn, oc.Log, firstLines(crashLine(t), 2))
				switch {
				case where == "harness":
					internal = append(internal, msg)
				case where == "library" && prop == "C20":
					crashViol = append(crashViol, mon.Violation{Case: mon.Case{Prop: prop, Op: "process-crash:" + fn}, Kind: "fatal", Want: "no fatal error / unrecovered panic inside the library", Got: firstLines(crashLine(t), 2), Detail: "log: " + oc.Log + lastCases(oc.Log)})
				default:
					incon = append(incon, msg)
				}
			}
			continue
		}
		if oc.Res.Internal != "" {
			internal = append(internal, oc.Res.Internal)
		}
		if fl.Cover {
			codeCov = coverageReport(oc.Profile, oc.Res.CoverFuncs)
		}
		if merged == nil {
			merged = oc.Res
		} else {
			mergeResults(merged, oc.Res, fn)
		}
	}
	if merged == nil {
		merged = &mon.Result{Prop: prop, Tier: tier, Seed: seed, Cells: map[string]int64{}}
	}
	if prop == "C20" && merged.Extra != nil {
		// every identifier exported by the tree under test must have been exercised
		seen := map[string]bool{}
		if l, ok := merged.Extra["api_exercised"].([]any); ok {
			for _, x := range l {
				if s, ok := x.(string); ok {
					seen[s] = true
				}
			}
		}
		var missing []string
		for _, f := range repoFuncs() {
			name := f.Name
			base := name
			recv := ""
			if i := strings.IndexByte(name, '.'); i >= 0 {
				recv, base = name[:i], name[i+1:]
			}
			if base == "" || base[0] < 'A' || base[0] > 'Z' || (recv != "" && (recv[0] < 'A' || recv[0] > 'Z')) {
				continue
			}
			if strings.HasPrefix(base, "Verif") {
				continue
			}
			if !seen[name] {
				missing = append(missing, name)
			}
		}
		sort.Strings(missing)
		if len(missing) > 0 && len(seen) > 0 {
			// The workload exercises every identifier the pinned tree exports; anything else is API the
			// tree under test has added. It cannot be driven by a harness that does not know it, so it is
			// reported (and recorded in the evidence) as outside what was explored - not as a verdict.
			merged.Extra["exported_identifiers_not_exercised"] = missing
			fmt.Printf("NOTE property=%s exported identifiers unknown to the workload (not explored): %s\n", prop, strings.Join(missing, ", "))
		}
	}
	merged.Violations = append(merged.Violations, crashViol...)
	merged.ViolTotal += int64(len(crashViol))
	merged.FreshTotal += int64(len(crashViol))
	incon = append(incon, merged.Inconclusive...)

	// split violations into known / new (classified by the child at the moment
	// each violation was recorded; counts are exact even when only a few
	// violations per finding are kept)
	knownCount := map[string]int{}
	knownWitness := map[string]mon.Violation{}
	var fresh []mon.Violation
	for k, n := range merged.KnownCounts {
		knownCount[k] = int(n)
	}
	for _, v := range merged.Violations {
		if v.Known != "" {
			if _, ok := knownWitness[v.Known]; !ok {
				knownWitness[v.Known] = v
			}
			if knownCount[v.Known] == 0 {
				knownCount[v.Known] = 1
			}
		} else {
			fresh = append(fresh, v)
		}
	}
	unclassified := int(merged.FreshTotal) - len(fresh)
	if unclassified < 0 {
		unclassified = 0
	}

	findings := loadFindings()
	var knownLines []string
	for _, f := range findings {
		if f.Property != prop || f.Status != "open" {
			continue
		}
		if n := knownCount[f.ID]; n > 0 {
			w := knownWitness[f.ID]
			line := fmt.Sprintf("KNOWN-FINDING: property=%s %s: %s [observed %d time(s) in this run, e.g. op=%s x=%v n=%v mode=%d: got %s, want %s]", prop, f.ID, f.What, n, w.Case.Op, w.Case.X, w.Case.N, w.Case.Mode, clip(w.Got, 80), clip(w.Want, 80))
			knownLines = append(knownLines, line)
		} else {
			fmt.Printf("NOTE: open known finding %s (property %s) was not observed in this run\n", f.ID, prop)
		}
	}
	for _, l := range knownLines {
		fmt.Println(l)
	}

	replayDir := filepath.Join(evidenceDir(), "replay")
	os.MkdirAll(replayDir, 0o755)
	old, _ := filepath.Glob(filepath.Join(replayDir, prop+"-*.json"))
	for _, o := range old {
		os.Remove(o)
	}
	nfresh := len(fresh) + unclassified
	for i, v := range fresh {
		if i >= 25 {
			break
		}
		p := filepath.Join(replayDir, fmt.Sprintf("%s-%d.json", prop, i))
		b, _ := json.MarshalIndent(v, "", " ")
		os.WriteFile(p, b, 0o644)
		fmt.Printf("VIOLATION property=%s replay=%s\n", prop, p)
		fmt.Printf("  op=%s kind=%s x=%v n=%v mode=%d def=%d\n  want: %s\n  got:  %s\n  %s\n", v.Case.Op, v.Kind, v.Case.X, v.Case.N, v.Case.Mode, v.Case.Def, clip(v.Want, 300), clip(v.Got, 300), clip(v.Detail, 400))
	}
	if nfresh > 25 {
		fmt.Printf("  ... %d further violation(s) not listed\n", nfresh-25)
	}

	verdict := "held"
	rc := 0
	switch {
	case nfresh > 0:
		verdict, rc = "violated", 1
	case len(internal) > 0:
		verdict, rc = "internal-error", 5
	case len(incon) > 0:
		verdict, rc = "inconclusive", 3
	}
	for _, s := range internal {
		fmt.Printf("INTERNAL property=%s %s\n", prop, s)
	}
	if rc != 1 {
		for _, s := range incon {
			fmt.Printf("INCONCLUSIVE property=%s reason=%s\n", prop, s)
		}
	}

	cov := map[string]any{
		"evaluations":         merged.Evaluations,
		"distinct_nontrivial": merged.DistinctNontriv,
		"rule":                merged.Rule,
		"samples":             samplesOf(merged),
		"cells":               summarizeCells(merged.Cells),
		"cell_targets":        merged.Targets,
		"code_coverage":       codeCov,
	}
	if len(merged.Max) > 0 {
		cov["worst_observed"] = merged.Max
		cov["worst_observed_case"] = merged.MaxCase
	}
	if len(merged.Extra) > 0 {
		cov["extra"] = merged.Extra
	}
	if len(sanReports) > 0 {
		cov["sanitizer_reports"] = sanReports
	}
	cov["violations_total_including_known"] = merged.ViolTotal
	kn := []string{}
	for id, n := range knownCount {
		kn = append(kn, fmt.Sprintf("%s x%d", id, n))
	}
	sort.Strings(kn)
	ev := Evidence{PropertyID: prop, Tier: tier, Seed: seed, Level: "exploration", Coverage: cov,
		Assumptions: merged.Assumptions, WallS: time.Since(start).Seconds(), Violations: nfresh, Verdict: verdict,
		Known: kn, Incon: incon, Builds: builds}
	if ev.Assumptions == nil {
		ev.Assumptions = []string{}
	}
	b, _ := json.MarshalIndent(ev, "", " ")
	if err := os.WriteFile(evPath, b, 0o644); err != nil {
		fmt.Printf("INTERNAL property=%s cannot write evidence: %v\n", prop, err)
		return 5
	}
	// <id>.json always describes the latest run; a per-tier copy keeps the other tier's last run next to it
	byTier := filepath.Join(filepath.Dir(evPath), "by-tier")
	os.MkdirAll(byTier, 0o755)
	os.WriteFile(filepath.Join(byTier, prop+"."+tier+".json"), b, 0o644)
	fmt.Printf("%s property=%s tier=%s seed=%d evaluations=%d distinct_nontrivial=%d violations=%d known=%v wall=%.1fs evidence=%s\n",
		strings.ToUpper(verdict), prop, tier, seed, merged.Evaluations, merged.DistinctNontriv, nfresh, kn, ev.WallS, evPath)
	return rc
}

func samplesOf(r *mon.Result) []any {
	out := []any{}
	for _, s := range r.Samples {
		c := s
		for i := range c.S {
			c.S[i] = clip(c.S[i], 200)
		}
		out = append(out, c)
		if len(out) >= 8 {
			break
		}
	}
	if len(out) == 0 {
		out = append(out, "no sample recorded")
	}
	return out
}

func clip(s string, n int) string {
	if len(s) > n {
		return s[:n] + fmt.Sprintf("...(%d bytes)", len(s))
	}
	return s
}

func firstLines(s string, n int) string {
	ls := strings.Split(strings.TrimSpace(s), "\n")
	if len(ls) > n {
		ls = ls[:n]
	}
	return strings.Join(ls, " | ")
}

// crashOrigin looks at the goroutine that crashed: "library" if its first
// non-runtime frame is in the package under test, "harness" if it is in the
// harness, "" if undecidable.
func crashOrigin(logPath string) string {
	b, err := os.ReadFile(logPath)
	if err != nil {
		return ""
	}
	lines := strings.Split(string(b), "\n")
	for i, l := range lines {
		if strings.HasPrefix(l, "panic:") || strings.HasPrefix(l, "fatal error:") {
			for _, f := range lines[i+1:] {
				switch {
				case strings.HasPrefix(f, pkgPath):
					return "library"
				case strings.HasPrefix(f, "verifharness/"):
					return "harness"
				case strings.HasPrefix(f, "goroutine ") && strings.Contains(f, "[") && !strings.Contains(f, "running"):
					return ""
				}
			}
			return ""
		}
	}
	return ""
}

func crashLine(t string) string {
	for _, l := range strings.Split(t, "\n") {
		if strings.HasPrefix(l, "panic:") || strings.HasPrefix(l, "fatal error:") || strings.Contains(l, "SIGQUIT") {
			return l
		}
	}
	return t
}

// summarizeCells groups cell counters by their first path element; groups
// with many members are reported as (distinct, total) only.
func summarizeCells(cells map[string]int64) map[string]any {
	groups := map[string]map[string]int64{}
	for k, v := range cells {
		g := k
		if i := strings.IndexByte(k, '/'); i >= 0 {
			g = k[:i]
		}
		if groups[g] == nil {
			groups[g] = map[string]int64{}
		}
		groups[g][k] = v
	}
	out := map[string]any{}
	for g, m := range groups {
		if len(m) <= 120 {
			for k, v := range m {
				out[k] = v
			}
			if len(m) > 1 {
				out[g+"/#distinct"] = len(m)
			}
			continue
		}
		var tot int64
		min := int64(1 << 62)
		for _, v := range m {
			tot += v
			if v < min {
				min = v
			}
		}
		out[g+"/#distinct"] = len(m)
		out[g+"/#total"] = tot
		out[g+"/#min_per_cell"] = min
	}
	return out
}

func violKey(v *mon.Violation) string {
	return fmt.Sprintf("%s|%v|%v|%v|%d|%d|%s", v.Case.Op, v.Case.X, v.Case.N, v.Case.S, v.Case.Mode, v.Case.Def, v.Kind)
}

func mergeResults(dst, src *mon.Result, flavour string) {
	dst.Evaluations += src.Evaluations
	// distinct cases of the other builds are the same case lists re-run; do not add
	if flavour != "cover" {
		for k, v := range src.Cells {
			dst.Cells[flavour+":"+k] += v
		}
	}
	seen := map[string]bool{}
	for i := range dst.Violations {
		seen[violKey(&dst.Violations[i])] = true
	}
	for i := range src.Violations {
		if !seen[violKey(&src.Violations[i])] {
			dst.Violations = append(dst.Violations, src.Violations[i])
			dst.ViolTotal++
			if src.Violations[i].Known == "" {
				dst.FreshTotal++
			}
		}
	}
	if dst.KnownCounts == nil {
		dst.KnownCounts = map[string]int64{}
	}
	for k, v := range src.KnownCounts {
		if flavour == "cover" {
			// the reduced-scale run repeats a prefix of the same cases
			if dst.KnownCounts[k] == 0 {
				dst.KnownCounts[k] = v
			}
			continue
		}
		dst.KnownCounts[k] += v
	}
	for _, s := range src.Inconclusive {
		dst.Inconclusive = append(dst.Inconclusive, flavour+": "+s)
	}
	if dst.Extra == nil {
		dst.Extra = map[string]any{}
	}
	if len(src.Extra) > 0 {
		dst.Extra[flavour] = src.Extra
	}
}

type finding struct {
	ID       string `json:"id"`
	Property string `json:"property"`
	Status   string `json:"status"`
	What     string `json:"what"`
	Commit   string `json:"commit"`
}

func loadFindings() []finding {
	b, err := os.ReadFile(filepath.Join(verifDir(), "known_findings.json"))
	if err != nil {
		return nil
	}
	var ff struct {
		Findings []finding `json:"findings"`
	}
	if json.Unmarshal(b, &ff) != nil {
		return nil
	}
	return ff.Findings
}

func countSanitizerReports(logPath string) (int, []string) {
	b, err := os.ReadFile(logPath)
	if err != nil {
		return 0, nil
	}
	n := 0
	kinds := map[string]int{}
	for _, l := range bytes.Split(b, []byte("\n")) {
		s := string(l)
		switch {
		case strings.Contains(s, "WARNING: DATA RACE"):
			n++
			kinds["data race"]++
		case strings.HasPrefix(s, "fatal error: checkptr"):
			n++
			kinds[s]++
		case strings.Contains(s, "ERROR: AddressSanitizer"):
			n++
			kinds[strings.TrimSpace(s)]++
		}
	}
	var ks []string
	for k, v := range kinds {
		ks = append(ks, fmt.Sprintf("%s x%d", k, v))
	}
	sort.Strings(ks)
	return n, ks
}

func lastCases(logPath string) string {
	p := strings.TrimSuffix(logPath, ".log") + ".lastcase"
	b, err := os.ReadFile(p)
	if err != nil {
		return ""
	}
	return " lastcases: " + clip(string(b), 2000)
}

func doReplay(path string) int {
	b, err := os.ReadFile(path)
	if err != nil {
		fmt.Fprintln(os.Stderr, err)
		return 5
	}
	var v mon.Violation
	if err := json.Unmarshal(b, &v); err != nil {
		fmt.Fprintln(os.Stderr, err)
		return 5
	}
	prop := v.Case.Prop
	fl := flavors["plain"]
	binPath, out, err := build(fl, prop+"-replay")
	if err != nil {
		fmt.Printf("BUILD-FAILED\n%s\n", out)
		return 2
	}
	defer os.Remove(binPath)
	abs, _ := filepath.Abs(path)
	oc := runChild(binPath, fl, prop, "quick", v.Case.Seed, []string{"VERIF_REPLAY=" + abs}, 10*time.Minute)
	lb, _ := os.ReadFile(oc.Log)
	os.Stdout.Write(lb)
	if bytes.Contains(lb, []byte("REPLAY-RESULT: violated")) {
		return 1
	}
	if bytes.Contains(lb, []byte("REPLAY-RESULT: no violation")) {
		return 0
	}
	return 5
}
