package main

import (
	"bufio"
	"fmt"
	"go/ast"
	"go/parser"
	"go/token"
	"os"
	"path/filepath"
	"sort"
	"strconv"
	"strings"
)

type funcRange struct {
	Name       string
	File       string
	Start, End int
}

func repoFuncs() []funcRange {
	var out []funcRange
	files, _ := filepath.Glob(filepath.Join(repoDir(), "*.go"))
	fset := token.NewFileSet()
	for _, f := range files {
		if strings.HasSuffix(f, "_test.go") {
			continue
		}
		af, err := parser.ParseFile(fset, f, nil, parser.SkipObjectResolution)
		if err != nil {
			continue
		}
		for _, d := range af.Decls {
			fd, ok := d.(*ast.FuncDecl)
			if !ok || fd.Body == nil {
				continue
			}
			name := fd.Name.Name
			if fd.Recv != nil && len(fd.Recv.List) > 0 {
				t := fd.Recv.List[0].Type
				if st, ok := t.(*ast.StarExpr); ok {
					t = st.X
				}
				if id, ok := t.(*ast.Ident); ok {
					name = id.Name + "." + name
				}
			}
			out = append(out, funcRange{Name: name, File: filepath.Base(f), Start: fset.Position(fd.Pos()).Line, End: fset.Position(fd.End()).Line})
		}
	}
	return out
}

// coverageReport measures, for the anchored functions, how many statement
// blocks of the library the monitored workload executed. This is reach
// measurement only; nothing is judged from it.
func coverageReport(profile string, want []string) map[string]any {
	rep := map[string]any{}
	f, err := os.Open(profile)
	if err != nil {
		rep["error"] = "no coverage profile: " + err.Error()
		return rep
	}
	defer f.Close()
	type block struct {
		file       string
		start, end int
		hit        bool
	}
	var blocks []block
	sc := bufio.NewScanner(f)
	sc.Buffer(make([]byte, 1<<20), 1<<20)
	for sc.Scan() {
		l := sc.Text()
		if strings.HasPrefix(l, "mode:") {
			continue
		}
		// path/file.go:13.67,14.37 1 5
		i := strings.LastIndexByte(l, ':')
		if i < 0 {
			continue
		}
		file := filepath.Base(l[:i])
		rest := strings.Fields(l[i+1:])
		if len(rest) != 3 {
			continue
		}
		se := strings.Split(rest[0], ",")
		if len(se) != 2 {
			continue
		}
		sl, _ := strconv.Atoi(strings.Split(se[0], ".")[0])
		el, _ := strconv.Atoi(strings.Split(se[1], ".")[0])
		cnt, _ := strconv.Atoi(rest[2])
		blocks = append(blocks, block{file, sl, el, cnt > 0})
	}
	funcs := repoFuncs()
	totalAll, hitAll := 0, 0
	for _, b := range blocks {
		totalAll++
		if b.hit {
			hitAll++
		}
	}
	rep["package_blocks"] = totalAll
	rep["package_blocks_hit"] = hitAll
	per := map[string]any{}
	for _, w := range want {
		var fr *funcRange
		for i := range funcs {
			if funcs[i].Name == w {
				fr = &funcs[i]
				break
			}
		}
		if fr == nil {
			per[w] = "function not found in the current tree"
			continue
		}
		tot, hit := 0, 0
		var missed []string
		for _, b := range blocks {
			if b.file == fr.File && b.start >= fr.Start && b.start <= fr.End {
				tot++
				if b.hit {
					hit++
				} else if len(missed) < 12 {
					missed = append(missed, fmt.Sprintf("%s:%d-%d", b.file, b.start, b.end))
				}
			}
		}
		sort.Strings(missed)
		e := map[string]any{"blocks": tot, "hit": hit}
		if len(missed) > 0 {
			e["unreached"] = missed
		}
		per[w] = e
	}
	rep["functions"] = per
	return rep
}
