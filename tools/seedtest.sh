#!/bin/bash
# tools/seedtest.sh <seeded-dir> [tier] [props...]
# Applies seeded/<x>/patch.diff to a scratch worktree of /repo's HEAD, confirms the repository suite still passes and
# the demonstration fails there, then runs the given checks (default: the owning property) against that tree.
# Never touches /repo's working tree or the real evidence files.
set -u
V="$(cd "$(dirname "${BASH_SOURCE[0]}")/.." && pwd)"
d="$1"; tier="${2:-quick}"; shift; shift || true
props="$*"
[ -z "$props" ] && props=$(python3 -c "import json,sys;print(json.load(open('$d/meta.json'))['property'])")
export GOFLAGS=-mod=mod GOPROXY=off GOSUMDB=off GOTOOLCHAIN=local
wt=$(mktemp -d /tmp/seedwt.XXXXXX); ev=$(mktemp -d /tmp/seedev.XXXXXX)
git -C /repo worktree add -q --detach "$wt" HEAD || exit 9
trap 'git -C /repo worktree remove --force "$wt" >/dev/null 2>&1; rm -rf "$ev"' EXIT
demo=$(ls "$d"/demo*_test.go 2>/dev/null | head -1)
if [ "${SEEDTEST_SUITE:-1}" = 1 ] && [ -n "$demo" ]; then
  cp "$demo" "$wt/zz_seed_demo_test.go"
  (cd "$wt" && go test -vet=off -count=1 -run 'TestSeed' . >"$ev/demo0.log" 2>&1) && echo "demo without change: pass (expected)" || { echo "demo without change: FAILS (UNEXPECTED)"; tail -5 "$ev/demo0.log"; }
  rm -f "$wt/zz_seed_demo_test.go"
fi
if ! git -C "$wt" apply "$d/patch.diff"; then echo "PATCH-DOES-NOT-APPLY $d"; exit 8; fi
if [ "${SEEDTEST_SUITE:-1}" = 1 ]; then
  (cd "$wt" && go test -vet=off -count=1 ./... >"$ev/suite.log" 2>&1) && echo "suite: pass" || { echo "suite: FAIL"; tail -5 "$ev/suite.log"; }
  if [ -n "$demo" ]; then
    cp "$demo" "$wt/zz_seed_demo_test.go"
    (cd "$wt" && go test -vet=off -count=1 -run 'TestSeed' . >"$ev/demo.log" 2>&1) && echo "demo with change: pass (UNEXPECTED)" || echo "demo with change: fails (expected)"
    rm -f "$wt/zz_seed_demo_test.go"
  fi
fi
for p in $props; do
  out=$(VERIF_REPO="$wt" VERIF_EVIDENCE_DIR="$ev" "$V/vcheck" $p $tier 2>&1); rc=$?
  echo "check $p $tier rc=$rc $(echo "$out" | grep -E '^(HELD|VIOLATED|INCONCLUSIVE|INTERNAL|BUILD-FAILED)' | tail -1 | cut -c1-150)"
  echo "$out" | grep -A3 "^VIOLATION" | head -8
done
