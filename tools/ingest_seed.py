#!/usr/bin/env python3
"""tools/ingest_seed.py <prop> <src-dir> <dest-name> "<needs>"  — copy a sub-agent's SEED directory into /verif/seeded/<dest-name>/,
regenerate patch.diff from the agent's worktree (git diff, sources only), run tools/seedtest.sh against the owning check (quick)
and write meta.json with what was run and observed."""
import json, os, subprocess, sys, shutil, datetime
prop, src, name, needs = sys.argv[1:5]
V = os.path.dirname(os.path.dirname(os.path.abspath(__file__)))
dst = os.path.join(V, "seeded", name)
os.makedirs(dst, exist_ok=True)
wt = os.path.dirname(src.rstrip("/"))
diff = subprocess.run(["git", "-C", wt, "diff", "--", "*.go"], capture_output=True, text=True).stdout
if not diff.strip():
    diff = open(os.path.join(src, "patch.diff")).read()
open(os.path.join(dst, "patch.diff"), "w").write(diff)
for f in os.listdir(src):
    if f.endswith("_test.go") or f == "README.md" or f.endswith(".go"):
        shutil.copy(os.path.join(src, f), os.path.join(dst, f if f != "README.md" else "AGENT_README.md"))
meta = {"property": prop, "source": "independent sub-agent given only the property text and a scratch worktree",
        "needs_to_manifest": needs, "files_changed": sorted(set(l[6:] for l in diff.splitlines() if l.startswith("+++ b/")))}
json.dump(meta, open(os.path.join(dst, "meta.json"), "w"), indent=1)
extra = sys.argv[5:] 
out = subprocess.run([os.path.join(V, "tools", "seedtest.sh"), dst, "quick", prop] + extra, capture_output=True, text=True).stdout
print(out)
lines = [l for l in out.splitlines() if l.startswith(("suite:", "demo", "check "))]
meta["ran"] = {"when": "2026-09-29", "command": "tools/seedtest.sh seeded/%s quick %s %s" % (name, prop, " ".join(extra)), "observed": lines}
meta["detected_by"] = [l.split()[1] for l in lines if l.startswith("check ") and "rc=1" in l]
json.dump(meta, open(os.path.join(dst, "meta.json"), "w"), indent=1)
