#!/bin/bash
# tools/neutraltest.sh <diff-file> [tier] [props...]
# Applies a change that is claimed NOT to violate any property to a scratch worktree of /repo's HEAD and runs the given
# checks (default: all 20, quick) against that tree. Every non-zero exit is printed with the first violations: on a
# property-preserving change each one is a false alarm to analyse. Never touches /repo's working tree or the real evidence.
set -u
V="$(cd "$(dirname "${BASH_SOURCE[0]}")/.." && pwd)"
diff="$1"; tier="${2:-quick}"; shift; shift || true
props="$*"
[ -z "$props" ] && props=$(python3 -c "import json;print(' '.join(c['property_id'] for c in json.load(open('$V/MANIFEST.json'))['checks']))")
export GOFLAGS=-mod=mod GOPROXY=off GOSUMDB=off GOTOOLCHAIN=local
wt=$(mktemp -d /tmp/neutwt.XXXXXX); ev=$(mktemp -d /tmp/neutev.XXXXXX)
git -C /repo worktree add -q --detach "$wt" HEAD || exit 9
trap 'git -C /repo worktree remove --force "$wt" >/dev/null 2>&1; rm -rf "$ev"' EXIT
if ! git -C "$wt" apply "$diff"; then echo "PATCH-DOES-NOT-APPLY $diff"; exit 8; fi
(cd "$wt" && go test -vet=off -count=1 ./... >"$ev/suite.log" 2>&1) && echo "suite: pass" || { echo "suite: FAIL"; grep -E '^(--- FAIL|FAIL|ok)' "$ev/suite.log" | head -8; }
for p in $props; do
  out=$(VERIF_REPO="$wt" VERIF_EVIDENCE_DIR="$ev" "$V/vcheck" $p $tier 2>&1); rc=$?
  echo "check $p $tier rc=$rc $(echo "$out" | grep -E '^(HELD|VIOLATED|INCONCLUSIVE|INTERNAL|BUILD-FAILED)' | tail -1 | cut -c1-150)"
  [ $rc -ne 0 ] && echo "$out" | grep -A3 "^VIOLATION" | head -16
done
