#!/usr/bin/env python3
"""Regenerates /verif/MANIFEST.json from the table below (one entry per property
that has a registered monitor). Properties without an entry are listed under
not_applicable with the reason given in PENDING."""
import json, subprocess, os

V = os.path.dirname(os.path.dirname(os.path.abspath(__file__)))

TB = ("Trusted base: Go toolchain and math/big; the harness's own BID decoder, exact rounding model "
      "(harness/ref) and generators; the verif-tagged VerifBits/VerifFromBits accessors. "
      "A pass means the oracle accepted every execution listed in the evidence file; inputs outside the "
      "generated classes are not covered.")

CHECKS = {
 "C01": dict(
   technique="runtime monitor: differential reference-model oracle (exact big.Int sum rounded into the format's member set) over generated hostile workloads, per DefaultRoundingMode phase",
   text="Every Add/Sub/AddWithMode/SubWithMode call on generated finite operand pairs is observed at the API boundary and judged by an exact rational oracle in all 6 modes and under all 6 DefaultRoundingMode values; workloads are constructed per cell of the rounding decision table (mode x sign x guard digit x sticky x parity x seam class), per exponent gap 0..80 and far gaps, near-cancellation and random shapes. Exploration: held on the executions counted in evidence.",
   ref="DESIGN.md §5 C01"),
 "C02": dict(
   technique="runtime monitor: differential reference-model oracle (exact product / rational quotient rounded into the member set, flush rule below 1e-6177) over generated hostile workloads, per DefaultRoundingMode phase",
   text="Every Mul/Quo/MulWithMode/QuoWithMode call on generated finite pairs is judged by an exact oracle in all 6 modes and under all 6 default modes; workloads cover operand-width classes, constructed ties, terminating and repeating quotients, quotient-estimate steering divisors, the subnormal band, the 1e-6177 flush threshold and the overflow edge. Exploration: held on the executions counted in evidence.",
   ref="DESIGN.md §5 C02"),
 "C03": dict(
   technique="runtime monitor: differential reference-model oracle (big.Int truncated quotient and exact remainder) over generated hostile workloads",
   text="Every QuoRem/QuoRemWithMode call on generated pairs (exponent gaps -45..120 and up to 12287, exact multiples +/-1, zero and infinite operands) is judged: quotient = trunc(x/y) rounded only if it does not fit, remainder exactly x - y*trunc(x/y) with x's sign. Exploration.",
   ref="DESIGN.md §5 C03"),
 "C04": dict(
   technique="runtime monitor: exact-order oracle on decoded rationals over a constructed grid of operand pairs, triples and sorted sequences",
   text="Cmp (both orders), CmpAbs, Equal, Compare, Min, Max, IsZero, Sign are observed on the full (digit length x digit length x gap -40..40) grid with cohort-equal / off-by-one-unit / truncated relations, on specials and arbitrary bit patterns, on triples (transitivity of the observed answers) and 64-element sorts; each answer is judged against the exact order. Exploration.",
   ref="DESIGN.md §5 C04"),
 "C05": dict(
   technique="runtime monitor: independent grammar recogniser + exact big.Int value of the literal rounded into the member set, over generated and mutated strings, per DefaultRoundingMode phase",
   text="Parse, MustParse, UnmarshalText and fmt.Sscan are observed on generated literals (1..70000 digits, any exponent field, ties and sticky tails around the 38/39-digit cut-off, range thresholds, underscores, special names) and byte-level mutations; the oracle classifies each string as must-accept / must-reject / undecided by the documented grammar and computes the exact rounded value. Exploration.",
   ref="DESIGN.md §5 C05"),
 "C06": dict(
   technique="runtime monitor: harness-side numeral reader (exact value, sign, digit minimality, layout rule) plus feed-back through the three text readers, over a constructed grid of values",
   text="String, MarshalText, %v, Sprint and Format/Append with precision -1 (e,E,f,g,G) are observed for values on the grid digit-length 1..35 x trailing zeros x exponent class (switch-over X=-7..8, range ends), both BID forms, zeros, specials; the text is read independently (exact rational equality, '-' iff sign bit, no superfluous digits, positional iff adjusted exponent in -4..5) and fed back through Parse/UnmarshalText/Sscan with the result judged on raw bits. Exploration.",
   ref="DESIGN.md §5 C06"),
 "C07": dict(
   technique="runtime monitor with layered oracles: exact half-even digit oracle in big.Int plus an independent text model of the fmt/strconv layout rules applied to every finite value (L1, model self-validated against the toolchain's fmt each run), byte-for-byte differential against fmt/strconv on a float64 holding the same exact value (L2), Decimal.Append vs Sprintf equality (L3)",
   text="Sprintf, Decimal.Append, Format and Append are observed over the enumerated spec space verb{e,E,f,F,g,G} x precision{absent,0..40} x width{absent,1..40} x 32 flag sets (quick: half of the 330k combinations, thorough: all, 3 passes) on values engineered for ties, carries, empty kept prefixes, g/G switch-over, zeros, 35-digit coefficients and long outputs, and on dyadic values exactly held by a float64 for the layout differential. Exploration.",
   ref="DESIGN.md §5 C07"),
 "C08": dict(
   technique="runtime monitor: exact big.Int quantisation oracle over generated (value, dp, mode) workloads, with idempotence and package-vs-method observers",
   text="Round (6 modes), Ceil, Floor and the package Round/Trunc/Ceil/Floor are observed with dp aligned to every digit position of the operand, half patterns over several dropped digits, carries, dp in -7000..7000 at both exponent ends (quantum above 1e6111), int extremes, zeros and specials; each result is judged against the exact quantisation (incl. the pinned below-a-tenth-of-the-quantum rule), sign, Inf only beyond MaxFinite, and re-application must be a fixed point. Exploration.",
   ref="DESIGN.md §5 C08"),
 "C09": dict(
   technique="runtime monitor: exact big.Rat oracle of the binary value, adjacency decided with Nextafter on exact rationals, correctly rounded big.Float reference, round-trip observer",
   text="FromFloat64/FromFloat32 are observed on float bit patterns of every class (uniform, subnormal, powers of two at every exponent, 53-bit integers x 2^k, extremes) and judged against the exact rational rounded nearest-even, plus the Float64/Float32 round trip; Float64/Float32 on decimals with exponents -400..330, midpoints between adjacent floats, range ends, judged for adjacency (error below one binary ulp, exact when representable); Float for precisions 0..300 and FromFloat for big.Floats up to 25000-bit exponents against their stated bounds. Exploration.",
   ref="DESIGN.md §5 C09"),
 "C10": dict(
   technique="runtime monitor: big.Int/big.Rat reference (truncation, saturation table, exact rounding) over generated boundary workloads",
   text="Int64/Int32/Uint64/Uint32, Int, Rat are observed on decimals at every type bound +/-1 with fractions and cohort variants, fractions in (-1,1), huge exponents, specials; FromInt64/32/Uint64/32 on machine integers; FromInt on big.Ints up to 20000 bits (ties at the 34/35-digit cut, nine-runs, around MaxFinite) and FromRat on rationals with small, terminating, huge and out-of-range terms, under each DefaultRoundingMode (where the format spacing exceeds the stated 2e-33 tolerance the nearest Decimal is required under a nearest default mode, a neighbour under a directed one); FromRat(d.Rat()) must be value-equal to d; Rat with reused receivers. Exploration.",
   ref="DESIGN.md §5 C10"),
 "C11": dict(
   technique="runtime monitor: exact scaling oracle (big.Int times power of ten rounded into the member set) and exact Frexp invariants, per DefaultRoundingMode phase",
   text="New is observed for significands {+/-1, powers of ten, int64 extremes, tie shapes, random} x exponents -6300..6300 (dense at both range ends) and int extremes; Ldexp for operands at both exponent ends with compensating exponents up to +/-12400, threshold magnitudes, zeros/specials; Frexp on all classes with 0.1<=|frac|<1, frac*10^e == d exactly and Ldexp(Frexp(d)) == d. Exploration.",
   ref="DESIGN.md §5 C11"),
 "C12": dict(
   technique="runtime monitor: independent IEEE 754-2008 BID decoder over marshalled bytes cross-checked against two other observers (Rat, harness-read String); byte-level round-trip, aliasing and length monitors",
   text="MarshalBinary is observed for injected bit patterns (every biased exponent x both coefficient forms, uniform bytes, specials with payload garbage) and for values produced by Parse, New and arithmetic; the 16 bytes are decoded as big-endian BID by the harness and must denote the value seen by Rat and by the harness's reading of String, with 0x78/0x7C prefixes and the steering form only above 2^113; for NaN/Inf patterns (random and structured tails: all zero, low word zero, one bit, library-shaped payloads) the library's own view (String, IsNaN, IsInf) must be the class and sign the decoder reads. UnmarshalBinary is observed on slices of length 0..64: accepts exactly length 16, Marshal(Unmarshal(b)) == b, inputs untouched, outputs fresh. Exploration.",
   ref="DESIGN.md §5 C12"),
 "C13": dict(
   technique="runtime monitor: RFC 8259 regex + json.Valid + harness numeral reader on produced tokens; exact-value oracle and Parse-agreement on consumed tokens; encoding/json container round trips; receiver-unchanged monitors",
   text="MarshalJSON is observed on all value classes (valid JSON number, exact value, sign, minimal digits; *json.UnsupportedValueError for NaN/Inf) and round-tripped directly, through struct/pointer/slice/map and json.Number; UnmarshalJSON on generated JSON number tokens of any length/exponent (exact rounded value, agreement with Parse, error on overflow), null (receiver untouched), other JSON values (error, receiver untouched), mutated bytes (no panic, never a silently wrong value) and hand-built documents with whitespace and nesting, under each DefaultRoundingMode. Exploration.",
   ref="DESIGN.md §5 C13"),
 "C14": dict(
   technique="runtime monitor: big.Int representability oracle for Compose (exact-or-error), exact inverse check for Decompose with nil/short/roomy buffers",
   text="Compose is observed on coefficients of 0..400 bytes (thresholds 16/17 and 32/33, leading zero bytes), foldable c*10^k and unfoldable c*10^k+1 shapes, exponents outside -6176..6111 compensated by the coefficient, int32 extremes, all forms; the oracle decides representability in big.Int and requires the exact value or an error, never rounding, input untouched. Folded coefficients are also aimed exactly at the largest/smallest exponent from the top of the coefficient range. Decompose is observed on every value class with three buffer regimes and must be inverted exactly by Compose (when the caller's buffer is written is recorded, not judged). Exploration.",
   ref="DESIGN.md §5 C14"),
 "C15": dict(
   technique="runtime monitor: class/sign oracle evaluated with Go's float64 math on dyadic class representatives, bit-identity monitor for NaN propagation, payload-text oracle from an independent op/class name table, four-way classification check against the harness decoder",
   text="Every arithmetic (x 6 modes and default), QuoRem, Pow, elementary, rounding and sign operation is observed on the complete cross product of 15 operand classes with random members per cell (non-canonical Inf/NaN/zero encodings, cohorts, huge odd/even integers); results are judged for class and sign whenever an operand is NaN/Inf/zero or the operation is invalid, NaN operands must be propagated bit for bit, invalid-operation NaNs must report the operation and the signed operand classes through Payload (compared by meaning, not wording), Ldexp/Frexp keep zero/Inf/NaN operands for hostile integer arguments, finite operands never give NaN otherwise, and IsNaN/IsInf/IsZero/Signbit are checked on arbitrary bit patterns. The run is inconclusive unless every class cell was hit. Exploration.",
   ref="DESIGN.md §5 C15"),
 "C16": dict(
   technique="runtime monitor: 1100-bit big.Float reference (error < 2^-900), error measured in units of the format spacing at the true result; exact-result oracle for exactly representable cases; analytic side decision inside the 1e-100 guard band; per DefaultRoundingMode phase",
   text="Exp, Exp2, Exp10, Expm1, Log, Log2, Log10, Log1p are observed on arguments from 1e-6176 to beyond the overflow thresholds (incl. the region where internal 16-bit exponents wrap), near 0/1/-1, exact powers and their neighbours, every integer of the admissible range for Exp2/Exp10 (thorough), every decimal exponent x leading-two-digit table slot for the logarithms, cohort variants, under all six default modes; each result must be within one format unit of the reference at the true result, exactly representable results exact under nearest-even, Inf/zero only beyond the range. Known open findings (pinned by the repository's own vectors or spread over the working arithmetic) are matched by narrow argument predicates. Exploration.",
   ref="DESIGN.md §5 C16"),
 "C17": dict(
   technique="runtime monitor: exact integer inequality oracle (|r| -/+ (1/2+1e-20)u)^k vs |x| in big.Int, exact-root oracle for constructed perfect powers",
   text="Sqrt and Cbrt are observed over the whole exponent range (all parity / mod-3 classes), coefficient shapes, perfect squares and cubes with their +/-1-unit neighbours, (m+1/2)^k shapes, constructed arguments whose exact root lies 1e-9 .. 1e-33 ulp from a rounding midpoint (CRT construction for Sqrt, tuned quadratic term next to short roots for Cbrt), roots aimed at internal thresholds, a sweep of every six-digit significand in every exponent class, subnormal and range-end arguments, zeros and infinities; each result is decided exactly against the stated midpoint margin, must carry the right sign, and perfect powers must give exact roots. Judged under the default nearest-even mode. Exploration.",
   ref="DESIGN.md §5 C17"),
 "C18": dict(
   technique="runtime monitor: exact oracle for the shortcut ladder (y=0, 1, -1, powers of ten, +/-0.5, negative bases) and 1100-bit exp(y ln|x|) reference with the statement's own tolerance; Pow vs PowWithMode bit-equality observer; per DefaultRoundingMode phase",
   text="PowWithMode (6 modes) and Pow are observed on exponents of every shortcut class (all cohorts of 0, +/-1, +/-0.5, integers with the parity digit at every position, half-integers, tiny and huge) against bases that are powers of ten in every cohort, near 1, negative, at the range ends and general, and on pairs aimed at the overflow/underflow thresholds; shortcut results must be exact, other results within u + |t||y|(4e-37|ln|x||+1e-55), Inf/zero only when that allowance reaches beyond the range, never NaN from finite operands except negative base with non-integer exponent. Exploration.",
   ref="DESIGN.md §5 C18"),
 "C19": dict(
   technique="runtime monitor: metamorphic differential (same call on two encodings of the same operand values, value-level result signatures compared) over ~150 operation variants, plus a cohort-enumeration oracle for Canonical",
   text="Every exported arithmetic (6 modes), comparison, elementary, rounding, conversion, formatting and encoding operation is executed on an operand set and on alternative cohort members (random and extreme) of the same values; class, sign and value of all results (numerals read by the harness for texts) must agree. Canonical is judged for value/sign preservation, idempotence, identical bits iff equal value and sign, exponent closest to zero by cohort enumeration, and the NaN/Inf/zero normal forms. Exploration.",
   ref="DESIGN.md §5 C19"),
 "C20": dict(
   technique="runtime monitoring with sanitizers: Go race detector (implies checkptr), -asan and -d=checkptr builds of the same workload; panic / documented-panic monitor, input-snapshot and retained-output monitors, package-state monitor, per-call watchdog (bounded progress), sequential-vs-concurrent result-table comparison, exported-API coverage cross-check",
   text="Every exported entry point (cross-checked against the identifiers exported by the tree under test) is called with hostile arguments: arbitrary bit patterns, strings and byte slices up to 100 kB, precisions/widths up to 100000 and 30-digit numbers in spec strings, int extremes for dp/exp, every RoundingMode byte, 0..4096-byte Compose coefficients, all Scan verbs; panics must occur exactly in the documented cases, inputs stay byte-identical, previously returned strings/slices stay unchanged, DefaultRoundingMode and the package constants stay unchanged, and every call returns within the watchdog bound. A shared table of operand records x ~140 operations is then executed by 16 and 64 goroutines in different permutations with Gosched under GOMAXPROCS 16 and 4 and every result compared bit for bit with the sequential table; the whole workload is repeated in race-detector, ASan and checkptr builds whose reports the runner counts (gate: zero). Exploration over the schedules that occurred; termination is restated as bounded progress.",
   ref="DESIGN.md §5 C20",
   note="Trusted base: Go toolchain, race detector / ASan / checkptr instrumentation, the harness. A clean race-detector run covers only the interleavings that happened; evidence lists calls, overlapping calls and configurations observed."),
}

PENDING = "monitor for this property is not built yet in this revision (work in progress; see DESIGN.md §5 for the planned monitor)"

def main():
    props = [json.loads(l) for l in open(os.path.join(V, "properties.jsonl"))]
    hooks_commits = []
    try:
        out = subprocess.run(["git", "-C", "/repo", "log", "--format=%H %s"], capture_output=True, text=True).stdout
        for l in out.splitlines():
            h, s = l.split(" ", 1)
            if s.startswith("verif:"):
                hooks_commits.append(h)
    except Exception:
        pass
    checks, na = [], []
    for p in props:
        pid = p["id"]
        c = CHECKS.get(pid)
        if not c:
            na.append({"property_id": pid, "reason": PENDING})
            continue
        checks.append({
            "property_id": pid,
            "quick_cmd": "./vcheck %s quick" % pid,
            "thorough_cmd": "./vcheck %s thorough" % pid,
            "evidence_file": "/verif/evidence/%s.json" % pid,
            "replay_cmd_template": "./vcheck replay {path}",
            "engine": "vrun",
            "level_claimed": {"category": "exploration", "text": c["text"], "design_ref": c["ref"]},
            "level_note": c.get("note", TB),
            "technique": c["technique"],
        })
    m = {
        "version": 1,
        "setup_cmd": "./setup.sh",
        "hooks": {
            "guard": "verif",
            "enable": "go build tag: the monitor binary is built with `go test -c -tags verif` from /verif/harness, whose go.mod replaces github.com/woodsbury/decimal128 with /repo",
            "baseline_off_cmd": "/verif/tools/baseline_off.sh",
            "source_commits": hooks_commits,
            "add_only": True,
        },
        "engines": [{
            "name": "vrun",
            "path": "/verif/harness/cmd/vrun",
            "serves_properties": [c["property_id"] for c in checks],
            "kind_free_text": "runner: rebuilds the monitor test binary (harness/props, -tags verif, -cover) from /repo's working tree, runs it as a watchdogged child process, merges monitor observations, matches known findings, writes evidence",
        }],
        "checks": checks,
        "notes": "Family: runtime monitoring and sanitizers. Exit codes of every check: 0 held (KNOWN-FINDING lines allowed), 1 VIOLATION, 2 BUILD-FAILED, 3 INCONCLUSIVE, 5 INTERNAL. VERIF_SEED selects the case streams; VERIF_SCALE multiplies case counts.",
        "not_applicable": na,
    }
    json.dump(m, open(os.path.join(V, "MANIFEST.json"), "w"), indent=1)
    print("MANIFEST.json: %d checks, %d not_applicable" % (len(checks), len(na)))

if __name__ == "__main__":
    main()
