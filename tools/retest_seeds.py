#!/usr/bin/env python3
"""tools/retest_seeds.py [name-substring]  — re-run tools/seedtest.sh for every seeded change (owning check, quick tier) and refresh
meta.json: `ran`/`detected_by` describe the latest run; an earlier run that differed is preserved under `history`."""
import json, glob, os, subprocess, sys
V = os.path.dirname(os.path.dirname(os.path.abspath(__file__)))
sel = sys.argv[1] if len(sys.argv) > 1 else ""
summary = []
for d in sorted(glob.glob(os.path.join(V, "seeded", "*"))):
    name = os.path.basename(d)
    if sel not in name:
        continue
    mp = os.path.join(d, "meta.json")
    m = json.load(open(mp))
    prop = m["property"]
    out = subprocess.run([os.path.join(V, "tools", "seedtest.sh"), d, "quick", prop], capture_output=True, text=True).stdout
    lines = [l[:220] for l in out.splitlines() if l.startswith(("suite:", "demo", "check "))]
    det = [l.split()[1] for l in lines if l.startswith("check ") and "rc=1" in l]
    old = m.get("ran", {})
    old_owner = [l for l in old.get("observed", []) if l.startswith("check " + prop + " ")]
    new_owner = [l for l in lines if l.startswith("check " + prop + " ")]
    if old_owner and new_owner and ("rc=1" in old_owner[0]) != ("rc=1" in new_owner[0]):
        m.setdefault("history", []).append({"note": "owning check before the workload was strengthened", "observed": old.get("observed", [])})
    others = [l for l in old.get("observed", []) if l.startswith("check ") and not l.startswith("check " + prop + " ")]
    if not others:
        others = old.get("neighbour_checks_from_first_run", [])
    m["ran"] = {"when": "2026-09-29", "command": "tools/seedtest.sh seeded/%s quick %s" % (name, prop), "observed": lines, "neighbour_checks_from_first_run": others}
    m["detected_by"] = sorted(set(det + [l.split()[1] for l in others if "rc=1" in l]))
    json.dump(m, open(mp, "w"), indent=1)
    ok = prop in det
    summary.append((name, "caught" if ok else "MISSED", [l for l in lines if not l.startswith("check")]))
    print(name, "caught" if ok else "MISSED", flush=True)
