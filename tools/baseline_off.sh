#!/bin/bash
# Runs the repository's own test suite with the verif guard OFF and compares the
# outcome with /root/.vp/BASELINE.json (every stable_pass test must pass).
export GOFLAGS=-mod=mod GOPROXY=off GOSUMDB=off GOTOOLCHAIN=local
REPO="${VERIF_REPO:-/repo}"
OUT="$(mktemp)"
(cd "$REPO" && go test -json -vet=off -count=1 -timeout 25m ./... > "$OUT" 2>&1)
python3 - "$OUT" <<'PY'
import json,sys
res={}
for l in open(sys.argv[1],errors='replace'):
    try: e=json.loads(l)
    except Exception: continue
    if e.get('Test') and e.get('Action') in('pass','fail','skip'):
        res[e['Package']+'::'+e['Test']]=e['Action']
try:
    base=json.load(open('/root/.vp/BASELINE.json'))
    want=base['stable_pass']
except Exception:
    want=[k for k,v in res.items() if v=='pass']
bad=[t for t in want if res.get(t)!='pass']
fails=sorted(k for k,v in res.items() if v=='fail')
print('baseline(guard off): %d/%d stable tests pass; failing tests now: %s'%(len(want)-len(bad),len(want),fails))
if bad:
    print('NOT PASSING:',bad); sys.exit(1)
PY
rc=$?
rm -f "$OUT"
exit $rc
