#!/bin/bash
# tools/sweep.sh <tier> <seed>...   runs every registered check for each seed and prints one line per run
cd "$(dirname "${BASH_SOURCE[0]}")/.."
tier="$1"; shift
for seed in "$@"; do
  for p in $(python3 -c "import json;print(' '.join(c['property_id'] for c in json.load(open('MANIFEST.json'))['checks']))"); do
    out=$(VERIF_SEED=$seed ./vcheck $p $tier 2>&1); rc=$?
    last=$(echo "$out" | grep -E "^(HELD|VIOLATED|INCONCLUSIVE|INTERNAL|BUILD-FAILED)" | tail -1 | cut -c1-160)
    echo "seed=$seed rc=$rc $last"
    if [ $rc -ne 0 ]; then echo "$out" | grep -E "^(VIOLATION|INCONCLUSIVE|INTERNAL)" | head -5; echo "$out" | grep -A4 "^VIOLATION" | head -12; fi
  done
done
