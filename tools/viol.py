#!/usr/bin/env python3
import json,collections,sys
prop=sys.argv[1]; tier=sys.argv[2] if len(sys.argv)>2 else 'quick'
n=int(sys.argv[3]) if len(sys.argv)>3 else 4
r=json.load(open('/verif/evidence/logs/%s-%s-plain.result.json'%(prop,tier)))
c=collections.Counter(); ex={}
for v in (r['violations'] or []):
    k=(v['case']['op'],v['kind']); c[k]+=1; ex.setdefault(k,[]).append(v)
print('total',r['violations_total'],'evals',r['evaluations'])
for k,m in sorted(c.items()):
    print(k,m)
    for v in ex[k][:n]:
        print('    ',v['detail'][:120],'| want',v['want'][:100],'| got',v['got'][:80])
if r.get('max'): print({k:round(v,4) for k,v in r['max'].items()})
