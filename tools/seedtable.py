#!/usr/bin/env python3
"""tools/seedtable.py — print the DESIGN.md §7.3 table from seeded/*/meta.json."""
import json, glob, os
V = os.path.dirname(os.path.dirname(os.path.abspath(__file__)))
print("| seed | prop | file | needs, in order to manifest | quick checks run → verdict |")
print("|------|------|------|-----------------------------|----------------------------|")
for d in sorted(glob.glob(os.path.join(V, "seeded", "*"))):
    m = json.load(open(os.path.join(d, "meta.json")))
    prop = m["property"]
    own = [l for l in m["ran"]["observed"] if l.startswith("check " + prop + " ")]
    caught = bool(own) and "rc=1" in own[0]
    verdict = "%s **%s**" % (prop, "caught" if caught else "MISSED")
    if any("before the workload was strengthened" in h.get("note", "") for h in m.get("history", [])):
        verdict += " (missed at first; caught after the workload was strengthened)"
    nb = m["ran"].get("neighbour_checks_from_first_run", [])
    if nb:
        verdict += "; neighbours at first run: " + ", ".join("%s %s" % (l.split()[1], "caught" if "rc=1" in l else "silent") for l in nb)
    print("| `%s` | %s | %s | %s | %s |" % (os.path.basename(d), prop, ", ".join(m["files_changed"]), m["needs_to_manifest"].replace("|", "\\|"), verdict))
