#!/bin/bash
# Offline setup: builds the runner and warms the Go build cache for the monitor binary.
set -e
cd "$(dirname "${BASH_SOURCE[0]}")/harness"
export GOFLAGS=-mod=mod GOPROXY=off GOSUMDB=off GOTOOLCHAIN=local
mkdir -p bin ../evidence
go build -o bin/vrun ./cmd/vrun
go test -c -tags verif -vet=off -cover -coverpkg=github.com/woodsbury/decimal128 -o bin/warm.test ./props
rm -f bin/warm.test
echo "setup ok"
